#!/bin/bash
# Build the verification harness offline from files on disk only.
set -e
ROOT="$(cd "$(dirname "${BASH_SOURCE[0]}")" && pwd)"
cd "$ROOT/harness"
export CARGO_NET_OFFLINE=true CARGO_TARGET_DIR="$ROOT/harness/target" RUSTFLAGS="--cfg georust_geo_verif"
cargo build --release --offline
if [ -f shim/getrandom_shim.c ]; then
  gcc -O2 -shared -fPIC -o shim/libgetrandom_shim.so shim/getrandom_shim.c -ldl
fi
mkdir -p "$ROOT/evidence" "$ROOT/replays"

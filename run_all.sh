#!/bin/bash
# runs every registered check (quick by default) on /repo as it is; prints one line per check
ROOT="$(cd "$(dirname "${BASH_SOURCE[0]}")" && pwd)"
tier=${1:-quick}
shift
ids="$*"
[ -n "$ids" ] || ids=$(python3 -c "import json;print(' '.join(c['property_id'] for c in json.load(open('$ROOT/MANIFEST.json'))['checks']))")
for id in $ids; do
  s=$(date +%s)
  out=$("$ROOT/check" $id --tier $tier 2>&1); rc=$?
  e=$(date +%s)
  echo "$id rc=$rc $((e-s))s $(echo "$out" | grep -E "^$id (quick|thorough)" | cut -c1-160)"
  if [ $rc -ne 0 ]; then echo "$out" | grep -E "VIOLATION|MACHINERY|signature" | cut -c1-300 | head -5; fi
done

#!/usr/bin/env python3
"""Regenerates /verif/MANIFEST.json from the table below (single source of truth)."""
import json, subprocess

ALL = ["C%02d" % i for i in range(1, 21)]

# id -> (engine, technique, level text, level note, design ref)
CHECKS = {
    "C01": ("E1-grid", "bounded exhaustive enumeration of input pairs vs exact arrangement-based DE-9IM reference model",
            "Every ordered pair of every lattice family (all 10 types + Geometry enum, all representation variants) is enumerated and relate() is compared cell-by-cell with an exact rational reference; the bound is the lattice size/vertex count stated in the evidence. Small-scope: every coincidence class named by the property has a witness inside the bound.",
            "Trusted: the harness's exact kernel (cross-checked against the repository's JTS relate cases in the oracle-selfcheck stage); inputs outside the integer lattice alphabet are not covered.",
            "DESIGN.md §4 C01"),
    "C02": ("E1-grid", "bounded exhaustive enumeration of input pairs and query coordinates vs masks on the exact reference DE-9IM and exact point location",
            "Every concrete Intersects/Contains/Within impl (100 ordered type pairs each, plus Coord operands, Intersects also for i64) is called on every ordered pair of the lattice families and compared with the documented mask applied to the exact reference matrix; coordinate_position of every shape (f64 and i64) at every half-step lattice point is compared with exact point location.",
            "Trusted: exact kernel; the masks are evaluated on the reference matrix, so C02 does not inherit relate's answers. One known finding (MultiLineString::coordinate_position at an even shared endpoint) is listed in known_findings.json.",
            "DESIGN.md §4 C02"),
    "C07": ("E1-grid", "bounded exhaustive enumeration of input pairs vs exact rational minimum distance",
            "Every concrete Euclidean Distance impl (100 ordered type pairs) on every ordered pair of the lattice families, a donut family with the partner inside or touching the hole, and all representation variants; compared with the exact rational squared distance (exactly 0.0 iff the exact DE-9IM intersects), symmetry bitwise, enum == concrete.",
            "Trusted: exact kernel. Tolerance 1e-12 relative on distance^2 (largest deviation measured is reported in the evidence).",
            "DESIGN.md §4 C07"),
    "C18": ("E2-stateright", "explicit-state BFS (stateright) over API histories executed on the real Polygon/Rect values, invariants in every state, Vec reference model stepped alongside",
            "Every history up to the stated depth of the public mutators (exterior_mut, try_exterior_mut Ok/Err, interiors_mut, try_interiors_mut Ok/Err, interiors_push, map_coords_in_place, try_map_coords_in_place failing at every position; Rect::new/set_min/set_max incl. caught panics) from every Polygon::new over the alphabet is executed on the real value; ring closedness, Rect ordering and equality with the reference model are evaluated in every reachable state. Conversions are enumerated exhaustively on a 3x3 lattice.",
            "Bounds: 3-coordinate alphabet, ring length <= 6, <= 2 interiors, depth 2 from all 160 initial polygons and depth 3 from every 13th (quick); one more level in thorough. States carry their depth so the parallel BFS is deterministic (state counts of two runs are compared).",
            "DESIGN.md §4 C18"),
    "C17": ("E2-stateright", "explicit-state search (stateright) whose state is the complete dump of the real PreparedGeometry; exhaustive unmerged histories; exhaustive pair enumeration with one prepared geometry reused",
            "State = verif_state() dump (hook H1) of the real PreparedGeometry + result flag; transitions = real relate calls (6 modes: P.relate(g), g.relate(P), both prepared, clone-then-drop, P.relate(P)) x 12 partners replayed on a fresh object; invariants: result equals plain relate, dump equals the fresh dump. Because every transition is a self-loop on the complete state, depth-1 exploration covers all depths within the alphabet; histories up to depth 2/3 are nevertheless run unmerged, and every shape of the lattice families is prepared once and related to every other shape in both positions.",
            "Trusted: the hook dumps every cached/interior-mutable field (edges incl. intersections and labels, nodes, flags, Rc counts). Equality is with plain relate; C01 ties plain relate to the exact matrix.",
            "DESIGN.md §4 C17"),
    "C20": ("E3-nondet", "exhaustive enumeration of owned nondeterminism: hash seeds until all n! iteration orders of probe maps occurred, all pool sizes 1..16, repeated calls and call histories; bit-exact output comparison",
            "Every collection-producing function on a family of inputs with many equal-rank output members is run in fresh processes under an LD_PRELOAD getrandom seam for >= 64 hash seeds (extended until every iteration order of probe HashMaps up to size 4, thorough 5, has been produced), for RAYON_NUM_THREADS 1..16, three times per process and after a different call history; overlay of 19k- and 92k-segment inputs under every in-process pool size 1..16. All outputs must be bit-identical to the reference run.",
            "NOT covered: thread interleavings inside rayon/i_overlay (third-party, std primitives, not instrumentable with loom/shuttle); one free-running schedule per configuration is observed. Configurations (seeds as far as map order is concerned, pool sizes, histories) are exhaustive as stated.",
            "DESIGN.md §4 C20, §8"),
    "C05": ("E1-grid", "bounded exhaustive enumeration of lattice polygons x windings x offsets x scales vs exact rational shoelace",
            "Every simple lattice ring (all of G3, G4 up to 5/6 vertices) and valid polygons with 1-2 holes, in every combination of ring windings and ring rotations, at offsets up to 1e9 and scale 2^-20: signed/unsigned area against the exact rational area, Rect/Triangle against their polygon form, collection sums, winding_order for every rotation/reversal/repeated vertex against the sign of the exact area, orient(Default|Reversed).",
            "Trusted: exact integer shoelace. Tolerance 8 ulp(coordinate magnitude) x extent; the measured deviation/tolerance ratio is reported in the evidence.",
            "DESIGN.md §4 C05"),
    "C06": ("E1-grid", "bounded exhaustive enumeration of lattice geometries and collection shapes vs exact rational / length-weighted centroid with dimension dominance",
            "Every lattice shape incl. degenerate ones (flat and single-point polygons, zero-length lines, degenerate Rect/Triangle, holes of either winding) and every 1-/2-/3-member GeometryCollection over a 17-leaf alphabet in four nesting shapes, at offsets {0,1.5e8} and scales {1,2}; centroid compared with the exact areal centroid / length-weighted midpoints / point mean under the dominance rule; None iff empty; inside the convex hull.",
            "Trusted: exact integer moments; linear weights in f64 (sqrt). Tolerance 1e-12 at the origin, 1e-6 at offset 1.5e8.",
            "DESIGN.md §4 C06"),
    "C08": ("E1-grid", "bounded exhaustive enumeration of ordered point sequences vs exact integer monotone-chain hull",
            "Every ordered sequence of up to 5 (thorough 6) distinct points of the 4x4 lattice and every sequence with repetition of up to 6 points of the 3x3 lattice goes through quick_hull, graham_hull and ConvexHull for MultiPoint/LineString/Polygon, in f64 and i64; the ring must be closed, CCW, strictly convex, have exactly the exact hull's vertex set and contain every input by exact orientation; minimum_rotated_rect must contain all inputs and not exceed the bounding rect.",
            "Trusted: 20-line integer monotone chain. Order of the input matters for quick-hull's tie-breaking, hence sequences rather than sets. Rounding in the farthest-point search at large coordinates is covered by the ulp-window stage of C03.",
            "DESIGN.md §4 C08"),
    "C09": ("E1-grid", "bounded exhaustive enumeration of vertex sequences x epsilon alphabet vs exact rational distance/area oracle",
            "Every vertex sequence of length 0..6 (thorough 7) over the 3x3 lattice with repetition, as LineString and closed as Polygon ring (exterior and interior) and Multi* member, crossed with an epsilon alphabet straddling the attainable distances/areas, through simplify, simplify_idx, simplify_vw, simplify_vw_idx, simplify_vw_preserve: output is the subsequence named by the indices, keeps first and last, every dropped vertex is within epsilon of its replacing segment (exact rational), every kept interior VW vertex has triangle area > epsilon (exact), epsilon <= 0 is the identity, rings stay closed and RDP / VW-preserve keep >= 4 coordinates.",
            "Trusted: exact rational point-segment distance and integer triangle areas. The harness builds geo with overflow checks on, so arithmetic wrap-around shows up as a panic.",
            "DESIGN.md §4 C09"),
    "C03": ("E1-grid", "exhaustive enumeration of ulp-lattice windows around ill-conditioned configurations vs exact big-integer predicates",
            "For 14 ill-conditioned base configurations (Shewchuk's classroom example, segments with endpoints at 2^52, exactly collinear integers at 2^51, nearly parallel lines, a thin triangle, mixed magnitudes 2^-30..2^30, far from the origin, negative quadrant) the query point ranges over every point of a w x w ulp lattice (see below); orient2d (f64, f32), point-on-segment, segment-segment intersects, line_intersection presence, ring/polygon/triangle/rect point location, contains/intersects and winding_order must equal exact arithmetic on the dyadic values; hull vertex sets on window points; integer kernels on all lattice triples at magnitudes up to 2^29.",
            "The domain 'all finite f64' is not enumerable: coverage is the stated windows only. The evidence reports on how many window points the naive determinant is wrong (the check aborts as vacuous if none). One known finding: quick_hull is not robust on such points.",
            "DESIGN.md §4 C03"),
    "C11": ("E1-grid", "bounded exhaustive enumeration of segment pairs (lattice, incl. zero-length) and ulp windows vs exact rational / big-integer classification",
            "Every ordered pair of segments over the 6x6 lattice (thorough 9x9) including zero-length operands: None / SinglePoint(proper iff interior to both) / Collinear with the exact shared sub-segment, improper point bit-identical to the endpoint, proper point within 4 ulp of the exact rational crossing and in both bounding boxes, agreement with Line::intersects, invariance under swapping and reversing the operands; plus one endpoint ranging over every point of ulp windows around nearly-parallel, touching, collinear-overlap and 2^52-magnitude configurations against exact big-integer classification.",
            "Bounding-box containment of proper points is asserted with a 4-ulp slack (reading of 'within a few ulps'; measured 1 ulp from the nearest-endpoint fallback).",
            "DESIGN.md §4 C11"),
    "C14": ("E1-grid", "bounded exhaustive enumeration of closed coordinate sequences (valid or not), hole placements and polygon pairs vs a literal transcription of the property on the exact arrangement",
            "Every closed coordinate sequence with 1..5 free vertices over the 3x3 lattice as a shell; four shells x every closed 3-/4-vertex sequence over the 4x4 window as a hole; a 6x4 shell with every (simple triangle, arbitrary 3-sequence) pair of holes; every ordered pair of simple lattice polygons as a MultiPolygon; {0,1,NaN,+inf,-inf}^4 in every geometry type. is_valid must equal the oracle, validation_errors must be empty iff valid, and every reported error must name a ring/member that really has the defect.",
            "Polygons valid by the wording of C14 but with a disconnected interior are dropped (counted). Error truth is not judged when a ring it names is itself malformed (counted).",
            "DESIGN.md §4 C14"),
    "C04": ("E1-grid", "bounded exhaustive enumeration of operand pairs x operations vs per-face agreement on the exact arrangement of the input boundaries",
            "Every ordered pair of operands from {empty, every simple lattice polygon, polygons with a (possibly touching) hole, two-member multipolygons} x {intersection, union, difference, xor}: on every face witness of the exact arrangement of both boundaries, inside(result) must equal the Boolean combination; every result vertex lies on an input boundary; exteriors CCW, holes CW, rings closed; the three area identities; operands rewritten with reversed windings, rotated rings, a repeated vertex and a repeated closing vertex; Polygon vs MultiPolygon operands and boolean_op; unary_union of consistently wound collections (both windings) vs the fold of unions vs the member union; clip(false/true) of every lattice line string (incl. along the boundary) per sub-edge of the arrangement, with length conservation.",
            "inside(result,q) is evaluated in f64 at witnesses at least 1e-6 from every input boundary (none had to be skipped on these lattices; the count is reported). Snapping tolerance 1e-6.",
            "DESIGN.md §4 C04"),
    "C10": ("E1-grid", "bounded exhaustive enumeration of lattice polygons vs exact tiling check on the arrangement of all triangle and polygon edges",
            "Every simple lattice polygon (all of G3, G4 up to 5 vertices) and every valid polygon with a hole over five shells (holes touching the shell included), also translated by 1e6: ear-cut (rings not touching), constrained and unconstrained Delaunay, monotone subdivision, stitch(earcut). Corners must be polygon vertices, areas must sum exactly, and on every face of the exact arrangement of all triangle/piece and polygon edges exactly one triangle/piece covers the face inside the region and none outside; MonotonicPolygons::intersects must equal exact point location on the half-step lattice extended beyond the bounding box.",
            "stitch(earcut) is compared by area and exterior/non-exterior only (ear-cut may leave a T-junction, the property asks for the same area). One known finding (monotone_subdivision panic on a T-junction).",
            "DESIGN.md §4 C10"),
    "C12": ("E1-grid", "bounded exhaustive enumeration of (geometry, query point) pairs and of geometry families vs exact point location and exact minimum distance",
            "closest_point of every shape of the lattice families (all types, holes, mixed-dimension collections) for every query point of the half-step lattice extended beyond the box: Intersection(p) exactly when p is not exterior, otherwise a point on the geometry at the exact minimum distance, never Indeterminate. interior_point of every shape, of concave/sliver polygons on the 4x4 lattice, of polygons with touching holes and of the whole TJ(n) family (every lattice triangle shell x every triangular hole with one vertex in the interior of a shell edge, n=7 quick / 8 thorough): Some unless empty, intersects, strictly interior when the geometry has interior of its own dimension, no panic.",
            "Returned points are not lattice points and are judged with a 1e-9 tolerance. Known finding: the documented start-point choice for single segments (4 signatures).",
            "DESIGN.md §4 C12"),
    "C19": ("E1-grid", "bounded exhaustive enumeration of type trees x coordinate functions x failing positions vs a recursive reference traversal",
            "Every shape (type tree) over 19 (thorough 25) leaf shapes of the 10 types - empty members, polygons with 0-3 holes - in collections of up to 3 members nested to depth 2, filled with pairwise distinct coordinates, crossed with 6 coordinate functions and fallible functions failing at every position: coords_count, coords_iter, size_hint, exterior_coords_iter, lines_iter, map_coords, map_coords_in_place, try_map_coords (Ok and first-error), try_map_coords_in_place, bounding_rect, extremes - all against the reference traversal produced while building the geometry.",
            "Rect is exempt from the traversal clause, as the property says. try_map_coords_in_place cannot be instantiated on Geometry/GeometryCollection (closure type recursion in the impl) and is exercised on the other nine types. Known finding: Triangle is re-normalised to CCW by map_coords.",
            "DESIGN.md §4 C19"),
    "C15": ("E1-grid", "bounded exhaustive enumeration of vertex sequences x ratio/distance alphabets vs an arc-length walk reference",
            "Every vertex sequence of length 1..6 (thorough 7) over the 3x3 lattice with repetition as LineString and every ordered pair (incl. equal points) as Line, crossed with ratios {-1,0,1/8..1,1+ulp,2} and every cumulative vertex ratio: the ratio and distance forms from start and end, the deprecated line_interpolate_point, and line_locate_point (simple lines) must agree with the arc-length walk; densify for LineString/Line/Polygon/Rect/Triangle with maxima from far below the shortest segment to above the total length keeps the vertices in order, inserts only points of the original segments, conserves length and respects the maximum.",
            "Reference computed in f64 (sqrt), tolerance 1e-12 relative. The deprecated form's documented None on a zero-length line is not compared.",
            "DESIGN.md §4 C15"),
    "C16": ("E1-grid", "exhaustive enumeration of all ordered pairs of a lon/lat lattice (plus near-coincident and cross-antimeridian partners) against metric identities",
            "All ordered pairs of a 10-degree (thorough 4-degree) lon/lat lattice, 8 neighbours at 1e-6 degree of every lattice point and cross-antimeridian partners, in Haversine, Geodesic, Rhumb and custom sphere / ellipsoid measures: round trip destination(a, bearing(a,b), distance(a,b)) within 1 mm of b, symmetry within 1 um, non-negativity, zero for identical points, point_at_ratio_between divides the distance, line-string length equals the segment sum, bearings in [0,360), outputs within lon/lat range; destination for bearings incl. negative and >360 and distances incl. 0 and negative: periodicity, sign symmetry and travelled distance.",
            "Weakest claim of the set: identities on a lattice say nothing between lattice points; pairs within ~2% of antipodal are excluded from the round-trip clause as the property allows. Measured worst deviations (<= 3e-8 m) are in the evidence. GeodesicMeasure::new's second parameter is named inverse_flattening but is used as the flattening f; the check passes f.",
            "DESIGN.md §4 C16"),
    "C13": ("E1-grid", "bounded exhaustive enumeration of integer affine matrices (pairs, triples), constructor parameters, and (similarity map x geometry pair) tuples; exact algebraic oracle and metamorphic commutation",
            "All ordered pairs of integer affine matrices (729 quick / 5625 thorough) on all lattice coordinates in f64 and i64: composition law, compose_many, inverse None iff singular and undoing the map; rotate/scale/skew/translate constructors and all Rotate/Scale/Skew/Translate trait methods incl. _mut and around centroid / bounding-box centre / point against the documented matrix; the 48 exact similarity maps D4 x {0,(7,-3)} x {1/2,1,2} applied to every ordered pair of a lattice shape family: relate, intersects/contains/within, is_valid unchanged, area x s^2 (sign flips under reflection), length/distance x s, centroid, bounding rect and hull vertex set equivariant, winding flips exactly under reflections.",
            "inverse for integer matrices only checked where the inverse is integral; Rect/Triangle are excluded from coordinate-wise constructor comparisons where map_coords re-normalises them.",
            "DESIGN.md §4 C13"),
}

# sentences appended to the level text (stages added in the second session; see DESIGN.md 6b)
AFFINE = " Affine-image stages: the families are also pushed through integer affine maps (shear, general map with offset, orientation-reversing, extreme shear, nearly singular with a 5e5 offset) and the exact oracle is recomputed on the integer image: oblique and nearly parallel edges, crossing points that are not representable, coordinates up to 1e6."
EXTRA = {
    "C01": " The named predicates of IntersectionMatrix (is_disjoint .. is_overlaps, matches, from_str) are evaluated on the true matrix of every pair against their documented masks; collections with members of different concrete types in both orders." + AFFINE + " Families NEST (strict containment without contact), EMPTYMEM (Multi* with an empty member), LSrun/LNrun; relate<f32> on every fifth pair.",
    "C02": " Collections with members of different concrete types (Triangle/Rect/MultiPolygon next to Polygon, Line next to MultiLineString) in both orders." + AFFINE + " Families NEST, EMPTYMEM, LSrun/LNrun (collinear runs through the start vertex of a closed line string); the f32 instantiation of intersects/contains/within on every fourth pair.",
    "C03": " Also: a constructed family at the edge of a semi-static filter's error bound (all coordinate differences round by ~0.49 ulp so that the two products drift apart; the evidence counts the points on which a filter with bound 1u/2u/2.5u/2.9u x detsum would be wrong), near-collinear i64/i32 triples whose products exceed 2^53/2^24 but fit the type, and point-in-triangle for every vertex order of every 4x4-lattice triangle in f64 and i64. Windows are 192^2 quick / 1536^2 thorough. Zero coordinates written as -0.0 in the vertex-order stage.",
    "C04": " Also: operands at exact power-of-two scales down to 2^-30 (no absolute size threshold may exist), unary_union of rings written from their least vertex with a repeated closing coordinate." + AFFINE.replace("(shear, general map with offset, orientation-reversing, extreme shear, nearly singular with a 5e5 offset)", "(the three moderate ones)") + " Closed loops as clip lines; unary_union of a ring whose least vertex is the tip of a needle (both windings, alone and followed by a square).",
    "C06": " Scales 2^-30 and 2^40 at the origin (power-of-two scaling is exact: no absolute size threshold may exist). Clockwise Triangle and Polygon leaves; inputs are translated and scaled by the harness's own coordinate mapper (geo's map_coords would re-normalise a Triangle).",
    "C07": AFFINE + " Exact 2^-30 / 2^30 twins of every third pair; distance<f32> on every second pair; far pairs of 7-8-vertex rings (several R-tree nodes, separations 4..10).",
    "C08": " Also sequences of distinct points of the 5x5 lattice (k<=4, thorough 5) and repetition sequences up to 7 (thorough); minimum_rotated_rect at the exact scales 2^-30, 1, 2^20. minimum_rotated_rect is also compared with the exact minimum over hull-edge-aligned rectangles; five points at ~1e9 with two of them within +-2 of a chord, every offset and order.",
    "C09": " Index variants must be the identity for epsilon <= 0; the RDP bound on polygon rings is checked by existence of an admissible embedding; Polygon::simplify_vw must equal LineString::simplify_vw of the ring. MultiPolygon::simplify_vw_preserve member-wise.",
    "C10": " Also: polygons with 2 and 3 holes of 3..8 vertices in every order; constrained_outer_triangulation and the deprecated TriangulateSpade entry points; MultiPolygon inputs (member with an optional touching hole x translated member: disjoint, interleaving, vertex-vertex and vertex-edge contact) through constrained Delaunay (tiles the union), stitch (same area and exterior) and the joint monotone subdivision; stitch(earcut) is classified by whether the ear-cut triangulation is conforming." + AFFINE.replace("(shear, general map with offset, orientation-reversing, extreme shear, nearly singular with a 5e5 offset)", "(the three moderate ones)") + " The families at the exact scales 2^-8 and 2^-12 (vertex spacing just above the documented Delaunay snap radius).",
    "C12": AFFINE.replace("(shear, general map with offset, orientation-reversing, extreme shear, nearly singular with a 5e5 offset)", "(the three moderate ones; queries at the images of the half-step lattice)") + " Point-only geometries at the ends of the floating-point range (2^+-520, f32 2^+-70).",
    "C13": " The commutation maps include the exact scales 2^-30 and 2^30; simplify_idx / simplify_vw_idx must keep the same positions when the tolerance is scaled with the map; the 'documented centre' of scale/skew/rotate is computed from the traversed coordinates, not from geo's bounding_rect. scaled/translated/rotated/skewed against compose(constructor) for all 729 matrices (f64, i64).",
    "C14": " Also: every ordered triple of a ring alphabet (incl. invalid members) as a three-member MultiPolygon with the member indices of every error; every Line, LineString (<= 4 coordinates), Triangle and Rect of the 3x3 lattice through the concrete type, the Geometry enum, a MultiLineString and a GeometryCollection." + AFFINE + " The two-hole family with an EMPTY interior ring before/between/after the holes; thin Triangles within a few ulps of collinear (f64) and integer-cornered Triangle<f32> at 2^13 against the exact determinant.",
    "C17": " Affine images of the families (oblique edges, overlapping R-tree envelopes) prepared in either or both positions, each prepared geometry reused along its row. Degenerate and empty geometries of every type (zero-length Line, flat Rect, collinear Triangle, one-coordinate LineString, empty members).",
    "C20": " Also: scalar measures and reductions (area, centroid, geodesic area/perimeter, Chamberlain-Duquette area, lengths in four metric spaces, Hausdorff distance, interior point, hull, closest point, distance, simplify, densify, relate, is_valid, unary_union) over collections of 16/64/257 irregular members under every pool size and hash seed; relate on a fresh PreparedGeometry vs the same call after every other partner has been related to it in both positions. validation_errors / check_validation of a MultiPolygon with one member conflicting with eight later ones, of a polygon with six defective holes and of a collection; a prepared outlier detector fresh vs after other k values; the outlier ensembles.",
    "C05": " Collections of members with mixed winding (polygon, reversed polygon, clockwise Triangle, Rect, nested): signed areas add with their signs, unsigned areas add up; zero coordinates written as -0.0.",
    "C15": " Exact 2^-30 / 2^30 twins of interpolation and locate on every fourth case.",
    "C18": " Rect conversions with corners of very different magnitude and sign (min + (max - min) != max) and Rect<i32> over the full range.",
    "C19": " Every other Rect leaf has corners of very different magnitude and sign.",
}

EXTRA4 = {'C01': ' Signed-zero variants (-0.0) of every family member; ulp windows around points of slanted ring edges against an exact point-in-ring oracle.', 'C02': ' Signed-zero variants of shapes and query coordinates.', 'C03': ' Triples at the ends of the exponent range (2^-600, 2^600: known finding in the robust dependency), reversed rings and rings used as holes in the ulp windows, -0.0 checks.', 'C04': ' clip with empty subject / empty clipping polygon under both values of invert.', 'C05': ' Integer rings far from the origin (i16 at 20000, i32 at 1e8, i64 at 3e9).', 'C06': ' MultiPolygons mixing zero-area members with areal ones; polygons with degenerate holes.', 'C09': ' Tolerance alphabet down to 1e-20; three different interior rings must come back in order.', 'C10': ' ulp windows around points of slanted chain segments for the MonoPoly point location.', 'C12': ' Nested MultiPolygons (island in a lake); every geometry type at extent 2^-600 queried from an ordinary distance.', 'C13': ' Winding order of closed line strings under maps of either determinant sign.', 'C14': ' Huge finite ordinates (f64::MAX, -f64::MAX, 1.5e308) must stay valid; EMPTY members in every position.', 'C15': ' Also a 2^-60 twin.', 'C18': ' Rect::try_new with corners in every relative position.', 'C20': ' Large triangulation inputs (1500 scattered points; 416 constraint segments with 8 crossing pairs; a 10x10 grid of squares) under every hash seed, pool size and call history.'}
for _k, _v in EXTRA4.items():
    EXTRA[_k] = EXTRA.get(_k, "") + _v
EXTRA5 = {'C01': ' Polygons written from their least vertex with a repeated closing coordinate.', 'C02': ' i64 / i32 predicates on points within two units of a long diagonal (products fit the type) against the i128 determinant.', 'C04': ' unary_union over one-member MultiPolygon items; clip of comb lines with up to 9000 (thorough 70001) coordinates against exact lengths.', 'C05': ' Scales 2^-30, 2^-200, 2^60 and f32 twins at the small scales.', 'C07': ' The deprecated EuclideanDistance impls; polygons with holes inside donut holes; point-point and point-segment forms at 2^520 / 2^-601 (f32 2^64 / 2^-80).', 'C08': ' i64 point sets with extent 2^30 whose candidates differ by a few units in distance from the chord (Bezout construction); thin triangles of exactly three coordinates in every entry point (f64 at 2^27, f32 at 2^12).', 'C09': ' Index variants on translated (2^52; f32 2^23), scaled (2^-600 .. 2^500) and f32 twins, judged against the property on the integer input.', 'C10': ' stitch of nested rings (up to five levels) with the triangle list in every rotation, reversed and interleaved; hand-picked polygons with several kinds of ring contact.', 'C13': ' Similarity maps with factors 2^-60 and 2^-200; the winding of a ring rewritten with a repeated closing coordinate.', 'C15': ' densify of polygons with three interiors, MultiLineString / MultiPolygon position by position; 10^3 .. 10^6 pieces per edge in f64 and f32.', 'C16': ' The deprecated per-function traits as entry points; polar partners (rhumb at the south pole: two known findings); journeys of several circumferences; MultiLineString lengths with degenerate members in every position.', 'C17': ' Members listed twice (mod-2 boundary).', 'C18': ' Rect::split_x / split_y incl. widths that overflow.', 'C19': ' Polygons whose exterior has one coordinate.', 'C20': ' Operations on (p, equal copy of p) against (p, p itself).'}
for _k, _v in EXTRA5.items():
    EXTRA[_k] = EXTRA.get(_k, "") + _v
EXTRA6 = {'C01': ' Hosts with two or three holes whose bounding boxes overlap against every point / short line of a 15x15 window; touching rings against every simple 4- to 6-member MultiLineString of a pool with segments crossing at the touch point. Collection-wrapped Multi* with an empty part; line strings with a repeated coordinate.', 'C02': ' The same hosts at every half-step point (coordinate_position / intersects / contains in three wrappings).', 'C03': ' The public triangle_winding_order helper in every ulp window.', 'C04': ' unary_union of the same collections far from the origin (f64 at 2^30, f32 at UTM magnitudes).', 'C05': ' i64 rings at 2^60 and i128 rings at 2^100; MultiPolygon::orient in both directions.', 'C08': ' f32 points of very different magnitude against the exact hull of the f32 values.', 'C10': ' Islands inscribed in holes in the stitch stage.', 'C13': ' One- and two-coordinate line strings and rings in the single-geometry stages.', 'C14': ' MultiPolygon members with a non-finite coordinate next to sound members.', 'C15': ' f32 twins of the ratio forms and of the deprecated form at the clamped ends.', 'C16': ' Line strings of up to 4097 (thorough 65537) coordinates; unit, 1 km and Neptune-sized spheres for nearly coincident points; polar partners off the lattice.'}
for _k, _v in EXTRA6.items():
    EXTRA[_k] = EXTRA.get(_k, "") + _v
EXTRA7 = {'C02': ' Axis-parallel segments at the ends of the numeric ranges (i16 / i32 / i64 / tiny f64 / tiny f32); every fifth pair also through the mixed concrete x Geometry-enum impls.', 'C05': ' Long rings (every side cut into up to 1000, thorough 20000, pieces).', 'C06': ' Long rings and paths with exactly known centroids.', 'C11': ' Three almost-T-junction configurations with non-dyadic coordinates as ulp-window bases.', 'C12': ' Axis-parallel segments of length 2^513 (f32 2^65).', 'C14': ' Rects with infinite ordinates.', 'C19': ' try_map_coords shows the coordinates in traversal order; MultiPolygon with an empty first member.', 'C20': ' Monotone point location fresh vs as the second query (all ordered pairs of half-step points); concave hull of eight 9-point sets alone vs right after each other set.'}
for _k, _v in EXTRA7.items():
    EXTRA[_k] = EXTRA.get(_k, "") + _v
EXTRA["C11"] = " Every lattice case is repeated at the exact scales 2^-30 and 2^30 (bit-identical answer after scaling back) and in f32."
EXTRA["C16"] = " points_along_line against distance / point_at_distance_between of the same metric space; a Neptune-sized HaversineMeasure."

EXTRA["C11"] += " Three almost-T-junction configurations with non-dyadic coordinates as ulp-window bases."

NOT_YET = "check not built yet in this round (planned: bounded exhaustive exploration, see DESIGN.md §4)"

def main():
    checks = []
    for pid in ALL:
        if pid not in CHECKS:
            continue
        eng, tech, text, note, ref = CHECKS[pid]
        checks.append({
            "property_id": pid,
            "quick_cmd": "./check %s --tier quick" % pid,
            "thorough_cmd": "./check %s --tier thorough" % pid,
            "evidence_file": "/verif/evidence/%s.json" % pid,
            "replay_cmd_template": "./check %s --replay {path}" % pid,
            "engine": eng,
            "level_claimed": {"category": "model_checking", "text": text + EXTRA.get(pid, ""), "design_ref": ref},
            "level_note": note,
            "technique": tech,
        })
    hooks_commits = []
    try:
        out = subprocess.run(["git", "-C", "/repo", "log", "--format=%h %s"], capture_output=True, text=True).stdout
        hooks_commits = [l.split()[0] for l in out.splitlines() if l.split(" ", 1)[1].startswith("verif-hook:")]
    except Exception:
        pass
    m = {
        "version": 1,
        "setup_cmd": "./setup.sh",
        "hooks": {
            "guard": "--cfg georust_geo_verif",
            "enable": "RUSTFLAGS=\"--cfg georust_geo_verif\" (set by ./check and ./setup.sh; harness path-depends on /repo/geo and /repo/geo-types and has its own target dir /verif/harness/target)",
            "baseline_off_cmd": "cd /repo && cargo test --workspace --no-fail-fast --offline",
            "source_commits": hooks_commits,
            "add_only": True,
        },
        "engines": [
            {"name": "E1-grid", "path": "/verif/harness/src", "serves_properties": [p for p in ALL if p in CHECKS and CHECKS[p][0] == "E1-grid"],
             "kind_free_text": "bounded exhaustive enumeration of all inputs over a small lattice alphabet, real geo code vs exact rational reference model"},
            {"name": "E2-stateright", "path": "/verif/harness/src/props", "serves_properties": [p for p in ALL if p in CHECKS and CHECKS[p][0] == "E2-stateright"],
             "kind_free_text": "explicit-state search (stateright) over API histories executed on the real objects"},
            {"name": "E3-nondet", "path": "/verif/harness/src/props/c20.rs", "serves_properties": [p for p in ALL if p in CHECKS and CHECKS[p][0] == "E3-nondet"],
             "kind_free_text": "exhaustive enumeration of owned nondeterminism: hash seeds (getrandom shim), pool sizes, call histories"},
        ],
        "checks": checks,
        "notes": "See DESIGN.md. Known findings: /verif/known_findings.json. Seeded breakages: /verif/seeded/.",
        "not_applicable": [{"property_id": p, "reason": NOT_YET} for p in ALL if p not in CHECKS],
    }
    json.dump(m, open("/verif/MANIFEST.json", "w"), indent=1)
    print("wrote MANIFEST.json with", len(checks), "checks")

if __name__ == "__main__":
    main()

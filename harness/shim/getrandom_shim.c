/* LD_PRELOAD seam for C20: makes every std RandomState in the process a deterministic function of
 * VERIF_HASH_SEED, so that hash-iteration order is a choice the harness owns and enumerates.
 * Without VERIF_HASH_SEED the real getrandom is used. */
#define _GNU_SOURCE
#include <stdlib.h>
#include <string.h>
#include <sys/types.h>
#include <unistd.h>
#include <sys/syscall.h>

ssize_t getrandom(void *buf, size_t len, unsigned int flags) {
    const char *s = getenv("VERIF_HASH_SEED");
    if (!s) return syscall(SYS_getrandom, buf, len, flags);
    unsigned long long x = strtoull(s, 0, 10) * 0x9E3779B97F4A7C15ULL + 0xD1B54A32D192ED03ULL;
    unsigned char *p = buf;
    for (size_t i = 0; i < len; i++) {
        x ^= x >> 12; x ^= x << 25; x ^= x >> 27;
        p[i] = (unsigned char)((x * 0x2545F4914F6CDD1DULL) >> 56);
    }
    return (ssize_t)len;
}

//! The repository's own JTS relate cases, used to validate the reference kernel (never as a verdict on geo).
use crate::build::*;
use crate::exact::*;
use std::str::FromStr;

pub struct JtsCase {
    pub file: String,
    pub desc: String,
    pub a: AG,
    pub b: AG,
    pub wkt_a: String,
    pub wkt_b: String,
    pub expected: String,
}

fn between<'a>(s: &'a str, open: &str, close: &str) -> Option<&'a str> {
    let i = s.find(open)? + open.len();
    let j = s[i..].find(close)? + i;
    Some(&s[i..j])
}

/// (cases in domain, total relate cases seen)
pub fn load_relate_cases() -> (Vec<JtsCase>, usize) {
    let mut out = vec![];
    let mut total = 0;
    let repo = std::env::var("VERIF_REPO").unwrap_or_else(|_| "/repo".to_string());
    let root = format!("{}/jts-test-runner/resources/testxml", repo);
    let root = root.as_str();
    for dir in ["general", "validate", "misc"] {
        let mut files: Vec<_> = match std::fs::read_dir(format!("{}/{}", root, dir)) {
            Ok(d) => d.filter_map(|e| e.ok()).map(|e| e.path()).collect(),
            Err(_) => continue,
        };
        files.sort();
        for f in files {
            let name = f.file_name().unwrap().to_string_lossy().to_string();
            if !name.starts_with("TestRelate") {
                continue;
            }
            let txt = std::fs::read_to_string(&f).unwrap();
            for case in txt.split("<case>").skip(1) {
                let (a, b) = match (between(case, "<a>", "</a>"), between(case, "<b>", "</b>")) {
                    (Some(a), Some(b)) => (a.trim(), b.trim()),
                    _ => continue,
                };
                let op = match case.find("<op name=\"relate\"") {
                    Some(i) => &case[i..],
                    None => continue,
                };
                let head = &op[..op.find('>').unwrap_or(op.len())];
                if !(head.contains("arg1=\"A\"") || head.contains("arg1=\"a\"")) {
                    continue;
                }
                let expected = match between(head, "arg3=\"", "\"") {
                    Some(e) => e.to_string(),
                    None => continue,
                };
                let truth = between(op, ">", "</op>").map(|s| s.trim() == "true").unwrap_or(false);
                if !truth || expected.len() != 9 || expected.contains('*') || expected.contains('T') {
                    continue;
                }
                total += 1;
                let parse = |w: &str| -> Option<geo::Geometry<f64>> {
                    let w: wkt::Wkt<f64> = wkt::Wkt::from_str(w).ok()?;
                    geo::Geometry::try_from(w).ok()
                };
                let (ga, gb) = match (parse(a), parse(b)) {
                    (Some(x), Some(y)) => (x, y),
                    _ => continue,
                };
                let (aa, ab) = match (ag_from_geom(&ga), ag_from_geom(&gb)) {
                    (Some(x), Some(y)) => (x, y),
                    _ => continue,
                };
                if !ag_in_domain(&aa) || !ag_in_domain(&ab) {
                    continue;
                }
                out.push(JtsCase {
                    file: format!("{}/{}", dir, name),
                    desc: between(case, "<desc>", "</desc>").unwrap_or("").trim().to_string(),
                    a: aa,
                    b: ab,
                    wkt_a: a.split_whitespace().collect::<Vec<_>>().join(" "),
                    wkt_b: b.split_whitespace().collect::<Vec<_>>().join(" "),
                    expected,
                });
            }
        }
    }
    (out, total)
}

/// Validate the reference kernel against JTS's expected matrices. Returns (checked, disagreements).
pub fn selfcheck() -> (usize, usize, Vec<String>) {
    let (cases, total) = load_relate_cases();
    let mut bad = vec![];
    for c in &cases {
        let m = mstr(&de9im(&c.a, &c.b));
        if m != c.expected {
            bad.push(format!("{} [{}] A={} B={} jts={} kernel={}", c.file, c.desc, c.wkt_a, c.wkt_b, c.expected, m));
        }
    }
    (cases.len(), total, bad)
}

//! C20 Results are a function of the inputs alone. E3: the harness owns hash seeds (getrandom shim),
//! pool sizes and call histories, enumerates them completely, and demands bit-identical output.
use crate::engine::*;
use geo::algorithm::triangulate_delaunay::DelaunayTriangulationConfig;
use geo::*;
use serde_json::json;
use std::collections::{BTreeMap, HashMap};
use std::process::Command;

fn sq(x: f64, y: f64, s: f64) -> Polygon<f64> {
    Polygon::new(LineString::from(vec![(x, y), (x + s, y), (x + s, y + s), (x, y + s), (x, y)]), vec![])
}
fn donut(x: f64, y: f64, holes: usize) -> Polygon<f64> {
    let s = 4.0 * holes as f64 + 1.0;
    let hs = (0..holes)
        .map(|i| {
            let hx = x + 1.0 + 4.0 * i as f64;
            LineString::from(vec![(hx, y + 1.0), (hx, y + 3.0), (hx + 2.0, y + 3.0), (hx + 2.0, y + 1.0), (hx, y + 1.0)])
        })
        .collect();
    Polygon::new(LineString::from(vec![(x, y), (x + s, y), (x + s, y + 5.0), (x, y + 5.0), (x, y)]), hs)
}
/// a comb-like polygon with about `teeth*4` segments
fn comb(x0: f64, y0: f64, teeth: usize, h: f64) -> Polygon<f64> {
    let mut v = vec![(x0, y0)];
    for i in 0..teeth {
        let x = x0 + 2.0 * i as f64;
        v.push((x, y0 + h));
        v.push((x + 1.0, y0 + h));
        v.push((x + 1.0, y0 + 1.0));
        v.push((x + 2.0, y0 + 1.0));
    }
    v.push((x0 + 2.0 * teeth as f64, y0));
    v.push((x0, y0));
    Polygon::new(LineString::from(v), vec![])
}

pub struct Inputs {
    pub multis: Vec<(String, MultiPolygon<f64>, MultiPolygon<f64>)>,
    pub points: Vec<(String, Vec<Point<f64>>)>,
}
pub fn inputs(large: bool) -> Inputs {
    let mut multis = vec![];
    for k in [2usize, 3, 5, 8, 12] {
        let a = MultiPolygon((0..k).map(|i| sq(3.0 * i as f64, 0.0, 2.0)).collect());
        let b = MultiPolygon((0..k).map(|i| sq(3.0 * i as f64 + 1.0, 1.0, 2.0)).collect());
        multis.push((format!("squares{}", k), a, b));
    }
    for h in [1usize, 2, 4] {
        let a = MultiPolygon(vec![donut(0.0, 0.0, h), donut(0.0, 10.0, h)]);
        let b = MultiPolygon(vec![sq(0.5, 0.5, 3.0), sq(2.0, 9.0, 4.0)]);
        multis.push((format!("donuts{}", h), a, b));
    }
    // checkerboard
    let cb = |off: usize| MultiPolygon((0..6usize).flat_map(|i| (0..6usize).filter(move |j| (i + j) % 2 == off).map(move |j| sq(i as f64, j as f64, 1.0))).collect::<Vec<_>>());
    multis.push(("checkerboard".into(), cb(0), cb(1)));
    if large {
        // above i_overlay's parallel split (8 000 segments) and par_sort (32 768) thresholds
        multis.push(("comb9k".into(), MultiPolygon(vec![comb(0.0, 0.0, 2400, 50.0)]), MultiPolygon(vec![comb(0.5, 0.5, 2400, 50.0)])));
        multis.push((
            "comb45k".into(),
            MultiPolygon((0..5).map(|r| comb(0.0, 100.0 * r as f64, 2300, 60.0)).collect()),
            MultiPolygon((0..5).map(|r| comb(0.5, 100.0 * r as f64 + 0.5, 2300, 60.0)).collect()),
        ));
    }
    let mut points = vec![];
    for n in [7usize, 12, 25] {
        // lattice points with many equal distances (ties) plus a few off-lattice
        let mut v: Vec<Point<f64>> = (0..n).map(|i| Point::new((i % 5) as f64, (i / 5) as f64)).collect();
        v.push(Point::new(2.5, 2.5));
        v.push(Point::new(-1.0, 0.5));
        points.push((format!("lattice{}", n), v));
    }
    Inputs { multis, points }
}

fn h(s: String) -> String {
    format!("{:016x}", fnv(&s))
}

/// run every function on every input; returns key -> hash of the bit-exact Debug serialisation
/// deterministic irregular (non-dyadic) lon/lat-like values: sums over them are sensitive to the order of the additions
fn irregular(n: usize, salt: u64) -> Vec<(f64, f64)> {
    let mut s = 0x9E3779B97F4A7C15u64 ^ salt.wrapping_mul(0xD1B54A32D192ED03);
    (0..n)
        .map(|_| {
            s = s.wrapping_mul(6364136223846793005).wrapping_add(1442695040888963407);
            let a = ((s >> 11) as f64) / ((1u64 << 53) as f64);
            s = s.wrapping_mul(6364136223846793005).wrapping_add(1442695040888963407);
            let b = ((s >> 11) as f64) / ((1u64 << 53) as f64);
            (a * 300.0 - 150.0, b * 120.0 - 60.0)
        })
        .collect()
}
/// collections with many members (16, 64, 257: around any plausible "go parallel from here" threshold) of irregular size and position
fn many_members(n: usize) -> (MultiPolygon<f64>, MultiLineString<f64>, MultiPoint<f64>) {
    let c = irregular(n, n as u64);
    let d = irregular(n, 1000 + n as u64);
    let mp = MultiPolygon(
        c.iter()
            .zip(&d)
            .map(|(&(x, y), &(u, v))| {
                let (w, hgt) = (0.01 + u.abs() / 400.0, 0.01 + v.abs() / 300.0);
                Polygon::new(LineString::from(vec![(x, y), (x + w, y + hgt / 3.0), (x + w * 0.7, y + hgt), (x - w / 5.0, y + hgt * 0.6), (x, y)]), vec![])
            })
            .collect(),
    );
    let mls = MultiLineString(c.iter().zip(&d).map(|(&(x, y), &(u, v))| LineString::from(vec![(x, y), (x + u / 200.0, y + v / 150.0), (x + u / 90.0, y - v / 300.0)])).collect());
    let mpt = MultiPoint(c.iter().map(|&(x, y)| Point::new(x, y)).collect());
    (mp, mls, mpt)
}

pub fn run_all(inp: &Inputs, reps: usize) -> Vec<(String, String)> {
    let mut out = vec![];
    let mut rec = |k: String, v: String| out.push((k, h(v)));
    // prepared geometries live across the repetitions: the same call on the same prepared geometry, before and after other calls on it
    let prep_inputs: Vec<(String, Geometry<f64>, Vec<Geometry<f64>>)> = {
        let sqg = Geometry::Polygon(sq(0.0, 0.0, 4.0));
        let partners: Vec<Geometry<f64>> = vec![
            Geometry::Point(Point::new(1.0, 1.0)),
            Geometry::Polygon(sq(4.0, 0.0, 2.0)),
            Geometry::Polygon(sq(2.0, 2.0, 4.0)),
            Geometry::Polygon(sq(-1.0, -1.0, 9.0)),
            Geometry::LineString(LineString::from(vec![(-1.0, 2.0), (5.0, 2.0)])),
            Geometry::LineString(LineString::from(vec![(0.0, 0.0), (4.0, 0.0)])),
            Geometry::Polygon(sq(1.0, 1.0, 1.0)),
            Geometry::Polygon(sq(10.0, 10.0, 1.0)),
            // partners that leave intersection points in the interior of the prepared geometry's edges: sharing part of an edge, overlapping a corner
            Geometry::Rect(Rect::new((-3.0, 1.0), (0.0, 5.0))),
            Geometry::Rect(Rect::new((0.0, 3.0), (6.0, 4.0))),
            Geometry::Rect(Rect::new((1.0, -2.0), (2.0, 0.0))),
            Geometry::Rect(Rect::new((3.0, -1.0), (7.0, 1.0))),
            Geometry::LineString(LineString::from(vec![(0.0, 1.5), (0.0, 2.5), (4.0, 3.5)])),
            Geometry::Rect(Rect::new((-3.0, 1.0), (0.0, 5.0))),
        ];
        let mpg = Geometry::MultiPolygon(MultiPolygon(vec![sq(0.0, 0.0, 2.0), Polygon::new(LineString::from(vec![(2.0, 1.0), (4.0, 0.0), (4.0, 2.0), (2.0, 1.0)]), vec![])]));
        let dn = Geometry::Polygon(donut(0.0, 0.0, 2));
        vec![("square".into(), sqg, partners.clone()), ("touching-multipolygon".into(), mpg, partners.clone()), ("donut".into(), dn, partners)]
    };
    let many: Vec<(usize, (MultiPolygon<f64>, MultiLineString<f64>, MultiPoint<f64>))> = [16usize, 64, 257].iter().map(|&n| (n, many_members(n))).collect();
    for rep in 0..reps {
        // point location in a monotone subdivision: every query on a fresh subdivision ("rep0") and as the second query on one that has just answered
        // another query ("rep1"), for every ordered pair of half-step lattice points; the polygon has vertical edges and inner chain vertices
        if rep == 0 {
            use geo::coordinate_position::CoordinatePosition;
            let stairs = Polygon::new(LineString::from(vec![(0.0, 0.0), (4.0, 0.0), (4.0, 2.0), (6.0, 2.0), (6.0, 5.0), (2.0, 5.0), (2.0, 3.0), (0.0, 3.0), (0.0, 0.0)]), vec![LineString::from(vec![(3.0, 3.0), (3.0, 4.0), (5.0, 4.0), (5.0, 3.0), (3.0, 3.0)])]);
            let qs: Vec<Coord<f64>> = (0..13).flat_map(|i| (0..11).map(move |j| Coord { x: i as f64 / 2.0, y: j as f64 / 2.0 })).collect();
            let answer = |m: &MonotonicPolygons<f64>, q: &Coord<f64>| -> String { format!("{} {:?}", m.intersects(q), m.subdivisions().iter().map(|p| p.coordinate_position(q)).collect::<Vec<_>>()) };
            let alone: Vec<String> = qs.iter().map(|q| answer(&MonotonicPolygons::from(stairs.clone()), q)).collect();
            for (i, p) in qs.iter().enumerate() {
                let mut after = String::new();
                for q in qs.iter() {
                    let m = MonotonicPolygons::from(stairs.clone());
                    let _ = answer(&m, p);
                    after.push_str(&answer(&m, q));
                    after.push(';');
                }
                rec(format!("monotone point location fresh vs as the second query|after query {}|rep0", i), alone.iter().map(|a| format!("{};", a)).collect::<String>());
                rec(format!("monotone point location fresh vs as the second query|after query {}|rep1", i), after);
            }
        }
        // equal input after a different earlier input of the same size: the concave hull of each of eight 9-point sets first on its own ("rep0"), then
        // directly after the hull of each other set ("rep1") - a result remembered from the previous call must not leak into the next one
        if rep == 0 {
            let mut sets: Vec<Vec<Coord<f64>>> = vec![
                vec![(2.0, 0.0), (3.0, 1.0), (4.0, 3.0), (1.0, 2.0), (1.0, 1.0), (2.0, 3.0), (3.0, 2.0), (0.0, 5.0), (4.0, 0.0)].into_iter().map(|(x, y)| Coord { x, y }).collect(),
                vec![(0.0, 5.0), (2.0, 3.0), (5.0, 5.0), (5.0, 4.0), (3.0, 5.0), (4.0, 0.0), (1.0, 0.0), (1.0, 1.0), (2.0, 0.0)].into_iter().map(|(x, y)| Coord { x, y }).collect(),
            ];
            for salt in 0..6u64 {
                // nine distinct points of a 6x6 lattice
                let mut v: Vec<Coord<f64>> = vec![];
                for (a, b) in irregular(40, 1000 + salt) {
                    let c = Coord { x: ((a + 150.0) / 50.0).floor(), y: ((b + 60.0) / 20.0).floor() };
                    if !v.contains(&c) && v.len() < 9 {
                        v.push(c);
                    }
                }
                if v.len() == 9 {
                    sets.push(v);
                }
            }
            for k in [3usize, 4] {
                let alone: Vec<String> = sets.iter().map(|b| format!("{:?}", b.k_nearest_concave_hull(k as u32))).collect();
                for (i, a) in sets.iter().enumerate() {
                    for (j, b) in sets.iter().enumerate() {
                        if i == j {
                            continue;
                        }
                        rec(format!("k_nearest_concave_hull on its own vs right after another set of the same size|k{}|set{} after set{}|rep0", k, j, i), alone[j].clone());
                        let _ = a.k_nearest_concave_hull(k as u32);
                        rec(format!("k_nearest_concave_hull on its own vs right after another set of the same size|k{}|set{} after set{}|rep1", k, j, i), format!("{:?}", b.k_nearest_concave_hull(k as u32)));
                    }
                }
            }
        }
        // equal input, different identity: an operation on (p, equal copy of p) ("rep0") and on (p, p itself) ("rep1"); likewise for operands that are
        // clones of each other at different addresses. The polygons are deliberately not in the overlay's canonical form (clockwise, starting at a
        // middle vertex, with collinear vertices, holes in descending order)
        if rep == 0 {
            let noncanon: Vec<(&str, Polygon<f64>)> = vec![
                ("cw-square-with-collinear-vertices", Polygon::new(LineString::from(vec![(2.0, 4.0), (4.0, 4.0), (4.0, 2.0), (4.0, 0.0), (2.0, 0.0), (0.0, 0.0), (0.0, 4.0), (2.0, 4.0)]), vec![])),
                ("ccw-triangle-from-its-top", Polygon::new(LineString::from(vec![(1.0, 5.0), (0.0, 0.0), (3.0, 1.0), (1.0, 5.0)]), vec![])),
                ("donut-holes-descending", {
                    let d = donut(0.0, 0.0, 3);
                    let mut hs: Vec<LineString<f64>> = d.interiors().to_vec();
                    hs.reverse();
                    Polygon::new(LineString::new(d.exterior().0.iter().rev().cloned().collect()), hs)
                }),
                ("canonical-square", sq(0.0, 0.0, 3.0)),
            ];
            for (name, p) in &noncanon {
                let copy = p.clone();
                let mp = MultiPolygon(vec![p.clone()]);
                let mcopy = mp.clone();
                rec(format!("Polygon::intersection same object vs equal copy|{}|rep0", name), format!("{:?}", p.intersection(&copy)));
                rec(format!("Polygon::intersection same object vs equal copy|{}|rep1", name), format!("{:?}", p.intersection(p)));
                rec(format!("Polygon::union same object vs equal copy|{}|rep0", name), format!("{:?}", p.union(&copy)));
                rec(format!("Polygon::union same object vs equal copy|{}|rep1", name), format!("{:?}", p.union(p)));
                rec(format!("Polygon::difference same object vs equal copy|{}|rep0", name), format!("{:?}", p.difference(&copy)));
                rec(format!("Polygon::difference same object vs equal copy|{}|rep1", name), format!("{:?}", p.difference(p)));
                rec(format!("Polygon::xor same object vs equal copy|{}|rep0", name), format!("{:?}", p.xor(&copy)));
                rec(format!("Polygon::xor same object vs equal copy|{}|rep1", name), format!("{:?}", p.xor(p)));
                rec(format!("MultiPolygon::intersection same object vs equal copy|{}|rep0", name), format!("{:?}", mp.intersection(&mcopy)));
                rec(format!("MultiPolygon::intersection same object vs equal copy|{}|rep1", name), format!("{:?}", mp.intersection(&mp)));
                rec(format!("MultiPolygon::union same object vs equal copy|{}|rep0", name), format!("{:?}", mp.union(&mcopy)));
                rec(format!("MultiPolygon::union same object vs equal copy|{}|rep1", name), format!("{:?}", mp.union(&mp)));
                rec(format!("relate same object vs equal copy|{}|rep0", name), format!("{:?}", p.relate(&copy)));
                rec(format!("relate same object vs equal copy|{}|rep1", name), format!("{:?}", p.relate(p)));
                rec(format!("distance same object vs equal copy|{}|rep0", name), format!("{:?} {:?}", Euclidean.distance(p, &copy), p.intersects(&copy)));
                rec(format!("distance same object vs equal copy|{}|rep1", name), format!("{:?} {:?}", Euclidean.distance(p, p), p.intersects(p)));
                rec(format!("unary_union same object twice vs two copies|{}|rep0", name), format!("{:?}", unary_union(&[p.clone(), copy.clone()])));
                rec(format!("unary_union same object twice vs two copies|{}|rep1", name), format!("{:?}", unary_union([p, p])));
            }
        }
        // the same relate call on the same prepared geometry, first on a fresh one ("rep0") and again after every other partner has been
        // related to it in both operand positions ("rep1"): equal input, different history
        if rep == 0 {
            for (name, g, partners) in &prep_inputs {
                for (i, x) in partners.iter().enumerate() {
                    let pg = geo::PreparedGeometry::from(g.clone());
                    rec(format!("prepared.relate(x) fresh vs after other calls|{}|partner{}|rep0", name, i), format!("{:?}", pg.relate(x)));
                    let pg2 = geo::PreparedGeometry::from(g.clone());
                    rec(format!("x.relate(prepared) fresh vs after other calls|{}|partner{}|rep0", name, i), format!("{:?}", x.relate(&pg2)));
                    for (j, y) in partners.iter().enumerate() {
                        if j != i {
                            let _ = (pg.relate(y), y.relate(&pg), pg2.relate(y), y.relate(&pg2));
                        }
                    }
                    rec(format!("prepared.relate(x) fresh vs after other calls|{}|partner{}|rep1", name, i), format!("{:?}", pg.relate(x)));
                    rec(format!("x.relate(prepared) fresh vs after other calls|{}|partner{}|rep1", name, i), format!("{:?}", x.relate(&pg2)));
                }
            }
        }
        // error lists and other order-carrying outputs: one member conflicting with several later members, several defective holes
        {
            use geo::algorithm::Validation;
            let bar = sq(0.0, 0.0, 1.0);
            let bar = Polygon::new(LineString::from(vec![(0.0, 0.0), (20.0, 0.0), (20.0, 1.0), (0.0, 1.0), (0.0, 0.0)]), vec![]);
            let mut members = vec![bar];
            for i in 0..8 {
                // posts crossing the bar (overlap) and posts standing on it (touch on a line), alternating
                let x = 1.0 + 2.0 * i as f64;
                let (y0, y1) = if i % 2 == 0 { (-1.0, 2.0) } else { (1.0, 3.0) };
                members.push(Polygon::new(LineString::from(vec![(x, y0), (x + 1.0, y0), (x + 1.0, y1), (x, y1), (x, y0)]), vec![]));
            }
            let mp = MultiPolygon(members);
            rec(format!("validation_errors|bar-and-posts|rep{}", rep), format!("{:?} {:?}", mp.validation_errors(), mp.check_validation()));
            let holes: Vec<LineString<f64>> = (0..6).map(|i| { let x = 1.0 + 3.0 * i as f64; LineString::from(vec![(x, -1.0), (x + 1.0, -1.0), (x + 1.0, 0.5), (x, 0.5), (x, -1.0)]) }).collect();
            let pg = Polygon::new(LineString::from(vec![(0.0, 0.0), (20.0, 0.0), (20.0, 1.0), (0.0, 1.0), (0.0, 0.0)]), holes);
            rec(format!("validation_errors|defective-holes|rep{}", rep), format!("{:?} {:?}", pg.validation_errors(), pg.check_validation()));
            let gc = GeometryCollection(vec![Geometry::MultiPolygon(mp.clone()), Geometry::Polygon(pg.clone()), Geometry::Line(Line::new((0.0, 0.0), (0.0, 0.0)))]);
            rec(format!("validation_errors|collection|rep{}", rep), format!("{:?}", gc.validation_errors()));
        }
        // large triangulation inputs (beyond any plausible 'switch strategy from here' threshold): 1500 scattered points unconstrained; 400 short
        // disjoint constraint segments plus 8 crossing pairs through the constrained entry points (crossings are resolved by splitting)
        {
            let pts = irregular(1500, 77);
            let cloud = LineString::from(pts.clone());
            rec(format!("unconstrained_triangulation|cloud1500|rep{}", rep), format!("{:?}", TriangulateDelaunay::unconstrained_triangulation(&cloud)));
            let mut segs: Vec<LineString<f64>> = (0..400).map(|i| { let (x, y) = ((i % 20) as f64 * 10.0, (i / 20) as f64 * 10.0); LineString::from(vec![(x + 1.0, y + 1.0 + (i % 7) as f64 * 0.37), (x + 6.0 + (i % 3) as f64 * 0.11, y + 4.0)]) }).collect();
            for k in 0..8 {
                let (x, y) = (300.0 + 12.0 * k as f64, 5.0 + 9.0 * k as f64);
                segs.push(LineString::from(vec![(x, y), (x + 8.0, y + 7.3)]));
                segs.push(LineString::from(vec![(x, y + 6.1), (x + 8.0, y + 0.4)]));
            }
            let mls = MultiLineString(segs);
            rec(format!("constrained_outer_triangulation|segments416|rep{}", rep), format!("{:?}", TriangulateDelaunay::constrained_outer_triangulation(&mls, DelaunayTriangulationConfig::default())));
            rec(format!("constrained_triangulation|grid-of-squares|rep{}", rep), format!("{:?}", TriangulateDelaunay::constrained_triangulation(&MultiPolygon((0..100).map(|i| sq((i % 10) as f64 * 3.0, (i / 10) as f64 * 3.0, 2.0 + (i % 4) as f64 * 0.2)).collect::<Vec<_>>()), DelaunayTriangulationConfig::default())));
        }
        // a prepared outlier detector queried with a sequence of k values: the same k on a fresh detector ("rep0") and after other k's ("rep1")
        if rep == 0 {
            for (name, pts) in &inp.points {
                let ks = [3usize, 7, 2, 5];
                for (i, &k) in ks.iter().enumerate() {
                    let fresh = pts.prepared_detector();
                    rec(format!("prepared_detector.outliers(k) fresh vs after other k|{}|k{}|rep0", name, k), format!("{:?}", fresh.outliers(k)));
                    let used = pts.prepared_detector();
                    for (j, &k2) in ks.iter().enumerate() {
                        if j != i {
                            let _ = used.outliers(k2);
                        }
                    }
                    rec(format!("prepared_detector.outliers(k) fresh vs after other k|{}|k{}|rep1", name, k), format!("{:?}", used.outliers(k)));
                }
                rec(format!("outlier ensembles|{}|rep0", name), format!("{:?} {:?} {:?}", pts.generate_ensemble(2..=5), pts.ensemble_min(2..=5), pts.ensemble_max(2..=5)));
            }
        }
        // scalar measures and reductions over collections with many members (a parallel or reordered reduction shows in the low bits)
        for (n, (mp, mls, mpt)) in &many {
            use geo::algorithm::line_measures::{Euclidean, Geodesic, Haversine, Length, Rhumb};
            let tag = format!("many{}", n);
            rec(format!("area|{}|rep{}", tag, rep), format!("{:?} {:?}", mp.signed_area(), mp.unsigned_area()));
            rec(format!("centroid|{}|rep{}", tag, rep), format!("{:?} {:?} {:?}", mp.centroid(), mls.centroid(), mpt.centroid()));
            rec(format!("geodesic_area|{}|rep{}", tag, rep), format!("{:?} {:?} {:?} {:?}", mp.geodesic_area_signed(), mp.geodesic_area_unsigned(), mp.geodesic_perimeter(), mp.geodesic_perimeter_area_signed()));
            rec(format!("chamberlain_duquette_area|{}|rep{}", tag, rep), format!("{:?} {:?}", mp.chamberlain_duquette_signed_area(), mp.chamberlain_duquette_unsigned_area()));
            rec(format!("length|{}|rep{}", tag, rep), format!("{:?} {:?} {:?} {:?}", Euclidean.length(mls), Haversine.length(mls), Geodesic.length(mls), Rhumb.length(mls)));
            rec(format!("bounding_rect+extremes|{}|rep{}", tag, rep), format!("{:?} {:?} {:?}", mp.bounding_rect(), mls.bounding_rect(), mp.extremes()));
            rec(format!("interior_point|{}|rep{}", tag, rep), format!("{:?} {:?} {:?}", mp.interior_point(), mls.interior_point(), mpt.interior_point()));
            rec(format!("convex_hull+mrr|{}|rep{}", tag, rep), format!("{:?} {:?}", mp.convex_hull(), mpt.minimum_rotated_rect()));
            rec(format!("closest_point+distance|{}|rep{}", tag, rep), format!("{:?} {:?} {:?}", mp.closest_point(&Point::new(0.3, 0.7)), mls.closest_point(&Point::new(0.3, 0.7)), Euclidean.distance(mp, mls)));
            rec(format!("simplify+densify|{}|rep{}", tag, rep), format!("{:?} {:?}", mls.simplify(0.05), Euclidean.densify(mls, 0.4)));
            rec(format!("hausdorff|{}|rep{}", tag, rep), format!("{:?}", mls.hausdorff_distance(mpt)));
            if *n <= 64 {
                rec(format!("relate+is_valid|{}|rep{}", tag, rep), format!("{:?} {:?}", mp.relate(mls), geo::algorithm::Validation::is_valid(mp)));
                rec(format!("unary_union|{}|rep{}", tag, rep), format!("{:?}", unary_union(&mp.0)));
            }
        }
        for (name, a, b) in &inp.multis {
            let big = name.starts_with("comb");
            rec(format!("intersection|{}|rep{}", name, rep), format!("{:?}", a.intersection(b)));
            rec(format!("union|{}|rep{}", name, rep), format!("{:?}", a.union(b)));
            rec(format!("difference|{}|rep{}", name, rep), format!("{:?}", a.difference(b)));
            rec(format!("xor|{}|rep{}", name, rep), format!("{:?}", a.xor(b)));
            let all: Vec<Polygon<f64>> = a.0.iter().chain(b.0.iter()).cloned().collect();
            rec(format!("unary_union|{}|rep{}", name, rep), format!("{:?}", unary_union(&all)));
            if big {
                continue;
            }
            let line = MultiLineString(vec![LineString::from(vec![(-1.0, 0.5), (40.0, 1.5)]), LineString::from(vec![(0.5, -1.0), (1.5, 20.0)])]);
            rec(format!("clip|{}|rep{}", name, rep), format!("{:?}{:?}", a.clip(&line, false), a.clip(&line, true)));
            // triangulations + stitch
            let tris: Vec<Triangle<f64>> = a.0.iter().flat_map(|p| p.earcut_triangles()).collect();
            rec(format!("earcut|{}|rep{}", name, rep), format!("{:?}", tris));
            rec(format!("stitch|{}|rep{}", name, rep), format!("{:?}", tris.stitch_triangulation()));
            rec(format!("constrained_triangulation|{}|rep{}", name, rep), format!("{:?}", TriangulateDelaunay::constrained_triangulation(a, DelaunayTriangulationConfig::default())));
            rec(format!("unconstrained_triangulation|{}|rep{}", name, rep), format!("{:?}", TriangulateDelaunay::unconstrained_triangulation(a)));
            rec(format!("monotone_subdivision|{}|rep{}", name, rep), format!("{:?}", monotone_subdivision(a.0.iter().cloned())));
            rec(format!("convex_hull|{}|rep{}", name, rep), format!("{:?}", a.convex_hull()));
            rec(format!("concave_hull|{}|rep{}", name, rep), format!("{:?}", a.concave_hull(2.0)));
            rec(format!("simplify_vw_preserve|{}|rep{}", name, rep), format!("{:?}", a.simplify_vw_preserve(0.6)));
            rec(format!("centroid+area|{}|rep{}", name, rep), format!("{:?}{:?}", a.centroid(), a.unsigned_area()));
        }
        // triangle grids with several holes / several islands: stitching must return rings in one fixed order
        for (gname, n, holes) in [("trigrid9-6holes", 9usize, vec![(1usize, 1usize), (1, 4), (1, 7), (4, 2), (4, 6), (7, 4)]), ("trigrid7-islands", 7, vec![(0, 3), (1, 3), (2, 3), (3, 3), (4, 3), (5, 3), (6, 3), (3, 0), (3, 1), (3, 2), (3, 4), (3, 5), (3, 6), (1, 1), (5, 5), (1, 5), (5, 1)])] {
            let mut tris: Vec<Triangle<f64>> = vec![];
            for i in 0..n {
                for j in 0..n {
                    if holes.contains(&(i, j)) {
                        continue;
                    }
                    let (x, y) = (i as f64, j as f64);
                    let c = |a: f64, b: f64| Coord { x: a, y: b };
                    tris.push(Triangle(c(x, y), c(x + 1.0, y), c(x + 1.0, y + 1.0)));
                    tris.push(Triangle(c(x, y), c(x + 1.0, y + 1.0), c(x, y + 1.0)));
                }
            }
            rec(format!("stitch|{}|rep{}", gname, rep), format!("{:?}", tris.stitch_triangulation()));
        }
        for (name, pts) in &inp.points {
            let mp = MultiPoint(pts.clone());
            rec(format!("k_nearest_concave_hull|{}|rep{}", name, rep), format!("{:?}", pts.k_nearest_concave_hull(3)));
            rec(format!("concave_hull_pts|{}|rep{}", name, rep), format!("{:?}", mp.concave_hull(1.5)));
            rec(format!("outliers|{}|rep{}", name, rep), format!("{:?}", mp.outliers(3)));
            rec(format!("convex_hull_pts|{}|rep{}", name, rep), format!("{:?}", mp.convex_hull()));
            rec(format!("unconstrained_triangulation_pts|{}|rep{}", name, rep), format!("{:?}", TriangulateDelaunay::unconstrained_triangulation(&Polygon::new(LineString::from(pts.iter().map(|p| p.0).collect::<Vec<_>>()), vec![]))));
        }
    }
    out
}

/// iteration orders of probe HashMaps of sizes 2..=5 under the current hash seed
fn probe_orders() -> Vec<(String, String)> {
    let mut v = vec![];
    for n in 2..=5usize {
        let mut m = HashMap::new();
        for i in 0..n {
            m.insert(i, ());
        }
        v.push((format!("probe{}", n), format!("{:?}", m.keys().collect::<Vec<_>>())));
    }
    v
}

/// entry point of the child processes: prints "key\thash" lines
pub fn worker(mode: &str) -> i32 {
    let large = std::env::var("VERIF_C20_LARGE").is_ok();
    let inp = inputs(large);
    if mode == "order-b" {
        // a different call history first: the point functions, then everything reversed once
        let _ = run_all(&Inputs { multis: vec![], points: inp.points.iter().map(|(n, p)| (n.clone(), p.clone())).collect() }, 1);
    }
    for (k, v) in probe_orders() {
        println!("#{}\t{}", k, v);
    }
    for (k, v) in run_all(&inp, 3) {
        println!("{}\t{}", k, v);
    }
    0
}

fn spawn_worker(mode: &str, seed: Option<u64>, threads: Option<usize>, large: bool) -> Result<(BTreeMap<String, String>, BTreeMap<String, String>), String> {
    let exe = std::env::current_exe().map_err(|e| e.to_string())?;
    let mut c = Command::new(exe);
    c.arg("C20-worker").arg(mode);
    if let Some(s) = seed {
        c.env("VERIF_HASH_SEED", s.to_string());
        c.env("LD_PRELOAD", format!("{}/harness/shim/libgetrandom_shim.so", verif_root()));
    }
    if let Some(t) = threads {
        c.env("RAYON_NUM_THREADS", t.to_string());
    }
    if large {
        c.env("VERIF_C20_LARGE", "1");
    }
    let o = c.output().map_err(|e| e.to_string())?;
    if !o.status.success() {
        return Err(format!("worker failed: {} {}", o.status, String::from_utf8_lossy(&o.stderr).chars().take(400).collect::<String>()));
    }
    let mut res = BTreeMap::new();
    let mut probes = BTreeMap::new();
    for l in String::from_utf8_lossy(&o.stdout).lines() {
        if let Some((k, v)) = l.split_once('\t') {
            if let Some(p) = k.strip_prefix('#') {
                probes.insert(p.to_string(), v.to_string());
            } else {
                res.insert(k.to_string(), v.to_string());
            }
        }
    }
    Ok((res, probes))
}

pub fn run(mut run: Run) -> i32 {
    run.rule = "every listed function on every input of the equal-rank family, output serialised bit-exactly (Debug of f64 round-trips) and compared with the reference run \
        (hash seed 0, 1 thread, first call) across: 3 repetitions in one process, a different preceding call history, every hash seed of the stated set in a fresh process (getrandom shim), \
        every RAYON_NUM_THREADS in 1..16 in a fresh process, and every pool size 1..16 via ThreadPoolBuilder::install in-process on the large overlay inputs; distinct = (function, input) keys compared"
        .into();
    run.assumptions = vec![
        "thread interleavings inside rayon/i_overlay are NOT enumerated (third-party code on std primitives; one free-running schedule per configuration is observed)".into(),
        "hash seeds are owned through an LD_PRELOAD getrandom shim; the evidence reports how many distinct iteration orders of probe maps the seed set produced".into(),
    ];
    let quick = run.ctx.quick();
    if !std::path::Path::new(&format!("{}/harness/shim/libgetrandom_shim.so", verif_root())).exists() {
        panic!("getrandom shim missing: run ./setup.sh");
    }
    let nseeds: u64 = run.ctx.pick(64, 512);
    let offset = run.ctx.seed % 1000;
    let (reference, _) = spawn_worker("plain", Some(0), Some(1), true).expect("reference worker");
    assert!(reference.len() > 50, "reference worker produced too little");
    // (i) repetition within one process: rep1/rep2 must equal rep0
    let mut configs = 0u64;
    for (k, v) in &reference {
        if let Some(base) = k.strip_suffix("|rep1").or_else(|| k.strip_suffix("|rep2")) {
            run.acc.evals += 1;
            let r0 = &reference[&format!("{}|rep0", base)];
            if r0 != v {
                let f = base.split('|').next().unwrap().to_string();
                run.acc.viol(format!("{} differs between repeated calls in one process", f), 0, || json!({"key": k, "rep0": r0, "this": v}));
            }
        }
        run.acc.class(k.rsplitn(2, '|').last().unwrap().to_string());
    }
    let compare = |run: &mut Run, what: &str, cfg: String, res: &BTreeMap<String, String>| {
        for (k, v) in &reference {
            run.acc.evals += 1;
            match res.get(k) {
                Some(x) if x == v => {}
                other => {
                    let f = k.split('|').next().unwrap().to_string();
                    run.acc.viol(format!("{} differs across {}", f, what), 0, || json!({"key": k, "config": cfg, "reference": v, "this": other}));
                }
            }
        }
    };
    // (i') different call history in the process
    let (r, _) = spawn_worker("order-b", Some(0), Some(1), true).expect("worker");
    compare(&mut run, "call history (other functions called first)", "order-b".into(), &r);
    configs += 2;
    // (ii) hash seeds, run in parallel batches
    let seeds: Vec<u64> = (0..nseeds).map(|i| i + offset).collect();
    let mut orders: BTreeMap<String, std::collections::BTreeSet<String>> = BTreeMap::new();
    let results: Vec<(u64, Result<(BTreeMap<String, String>, BTreeMap<String, String>), String>)> = {
        use rayon::prelude::*;
        seeds.par_iter().map(|&s| (s, spawn_worker("plain", Some(s), Some(2), false))).collect()
    };
    for (s, r) in results {
        let (res, probes) = r.expect("seed worker");
        for (k, v) in probes {
            orders.entry(k).or_default().insert(v);
        }
        // seed workers skip the large inputs; compare the common keys
        for (k, v) in &res {
            run.acc.evals += 1;
            if reference.get(k) != Some(v) {
                let f = k.split('|').next().unwrap().to_string();
                run.acc.viol(format!("{} differs across hash seeds (fresh process)", f), 0, || json!({"key": k, "seed": s, "reference": reference.get(k), "this": v}));
            }
        }
        configs += 1;
    }
    // keep adding seeds until every iteration order of the probe maps up to size 4 (thorough: 5) has occurred
    let want: Vec<(&str, usize)> = if quick { vec![("probe2", 2), ("probe3", 6), ("probe4", 24)] } else { vec![("probe2", 2), ("probe3", 6), ("probe4", 24), ("probe5", 120)] };
    let mut next_seed = offset + nseeds;
    let mut extra_seeds = 0u64;
    while want.iter().any(|(k, n)| orders.get(*k).map_or(0, |s| s.len()) < *n) && extra_seeds < 8192 {
        let batch: Vec<u64> = (next_seed..next_seed + 64).collect();
        next_seed += 64;
        extra_seeds += 64;
        let results: Vec<(u64, Result<(BTreeMap<String, String>, BTreeMap<String, String>), String>)> = {
            use rayon::prelude::*;
            batch.par_iter().map(|&s| (s, spawn_worker("plain", Some(s), Some(2), false))).collect()
        };
        for (s, r) in results {
            let (res, probes) = r.expect("seed worker");
            for (k, v) in probes {
                orders.entry(k).or_default().insert(v);
            }
            for (k, v) in &res {
                run.acc.evals += 1;
                if reference.get(k) != Some(v) {
                    let f = k.split('|').next().unwrap().to_string();
                    run.acc.viol(format!("{} differs across hash seeds (fresh process)", f), 0, || json!({"key": k, "seed": s, "reference": reference.get(k), "this": v}));
                }
            }
            configs += 1;
        }
    }
    run.extra.insert("all_iteration_orders_covered_up_to_map_size".into(), json!(want.iter().filter(|(k, n)| orders.get(*k).map_or(0, |s| s.len()) >= *n).map(|(k, _)| *k).collect::<Vec<_>>()));
    run.extra.insert("extra_seeds_for_order_coverage".into(), json!(extra_seeds));
    let order_counts: BTreeMap<String, usize> = orders.iter().map(|(k, v)| (k.clone(), v.len())).collect();
    run.extra.insert("distinct_probe_map_iteration_orders_seen".into(), json!(order_counts));
    run.extra.insert("hash_seeds".into(), json!(seeds.len() as u64 + extra_seeds));
    // (iii) pool sizes via the environment, fresh process
    let pools: Vec<usize> = (1..=16).collect();
    let results: Vec<(usize, Result<(BTreeMap<String, String>, BTreeMap<String, String>), String>)> = {
        use rayon::prelude::*;
        pools.par_iter().map(|&t| (t, spawn_worker("plain", Some(0), Some(t), true))).collect()
    };
    for (t, r) in results {
        let (res, _) = r.expect("pool worker");
        compare(&mut run, "RAYON_NUM_THREADS (fresh process)", format!("RAYON_NUM_THREADS={}", t), &res);
        configs += 1;
    }
    // (iii') every pool size 1..16 in-process on the large overlay inputs (crossing the parallel thresholds)
    let inp = inputs(true);
    let big: Vec<&(String, MultiPolygon<f64>, MultiPolygon<f64>)> = inp.multis.iter().filter(|m| m.0.starts_with("comb")).collect();
    let mut first: BTreeMap<String, String> = BTreeMap::new();
    let sizes: Vec<usize> = (1..=16).collect();
    for &n in &sizes {
        let pool = rayon::ThreadPoolBuilder::new().num_threads(n).build().expect("pool");
        for (name, a, b) in big.iter().map(|x| (&x.0, &x.1, &x.2)) {
            let (i, u) = pool.install(|| (format!("{:?}", a.intersection(b)), format!("{:?}", a.union(b))));
            for (f, v) in [("intersection", h(i)), ("union", h(u))] {
                run.acc.evals += 1;
                let key = format!("{}|{}", f, name);
                match first.get(&key) {
                    None => {
                        first.insert(key, v);
                    }
                    Some(x) if *x == v => {}
                    Some(x) => {
                        let (x, v2) = (x.clone(), v.clone());
                        run.acc.viol(format!("{} differs across in-process pool sizes (large input)", f), 0, || json!({"key": key, "threads": n, "first": x, "this": v2}));
                    }
                }
            }
        }
        configs += 1;
    }
    run.extra.insert("segments_in_large_inputs".into(), json!(big.iter().map(|m| (m.0.clone(), m.1 .0.iter().map(|p| p.exterior().0.len()).sum::<usize>() + m.2 .0.iter().map(|p| p.exterior().0.len()).sum::<usize>())).collect::<Vec<_>>()));
    run.extra.insert("configurations_run".into(), json!(configs));
    run.extra.insert("pool_sizes_fresh_process".into(), json!(pools));
    run.extra.insert("pool_sizes_in_process".into(), json!(sizes));
    run.extra.insert("schedules".into(), json!("free-running, one per configuration, not enumerated"));
    run.extra.insert("configs_exhaustive".into(), json!(true));
    run.states = configs;
    run.transitions = run.acc.evals;
    run.traces = configs;
    run.acc.samples.push((0, json!({"functions x inputs": reference.len() / 3, "example_keys": reference.keys().take(5).collect::<Vec<_>>()})));
    run.finish()
}

//! C15 Interpolation, location and densification agree along a line.
#![allow(deprecated)]
use crate::build::*;
use crate::engine::*;
use crate::enumr::*;
use crate::exact::*;
use geo::{Coord, Densify, Euclidean, InterpolatableLine, Line, LineInterpolatePoint, LineLocatePoint, LineString, Point, Polygon, Rect, Triangle};
use serde_json::json;

fn seg_len(a: IP, b: IP) -> f64 {
    (((a.0 - b.0).pow(2) + (a.1 - b.1).pow(2)) as f64).sqrt()
}
/// point at arc length s (0 <= s <= L) along the polyline, and total length
fn at_arc(v: &[IP], s: f64) -> (f64, f64) {
    let mut rem = s;
    for w in v.windows(2) {
        let l = seg_len(w[0], w[1]);
        if l > 0.0 && rem <= l {
            let t = rem / l;
            return (w[0].0 as f64 + t * (w[1].0 - w[0].0) as f64, w[0].1 as f64 + t * (w[1].1 - w[0].1) as f64);
        }
        rem -= l;
    }
    let p = v[v.len() - 1];
    (p.0 as f64, p.1 as f64)
}
fn total_len(v: &[IP]) -> f64 {
    v.windows(2).map(|w| seg_len(w[0], w[1])).sum()
}
fn ratios(v: &[IP]) -> Vec<f64> {
    let mut r = vec![-1.0, -0.0, 0.0, 0.125, 0.25, 1.0 / 3.0, 0.5, 0.75, 0.875, 1.0, 1.0000000000000002, 2.0];
    let l = total_len(v);
    if l > 0.0 {
        let mut c = 0.0;
        for w in v.windows(2) {
            c += seg_len(w[0], w[1]);
            r.push(c / l);
        }
    }
    r
}

fn check_line_like(acc: &mut Acc, idx: usize, v: &[IP], what: &str) {
    let l = total_len(v);
    let tol = 1e-12 * (1.0 + l + 4.0);
    let lsg = ls(v);
    let line = if v.len() == 2 { Some(Line::new(c(v[0]), c(v[1]))) } else { None };
    let simple = v.len() >= 2 && v[0] != v[v.len() - 1] && simple_polyline(v);
    acc.class(format!("{} n{} zero-length-segments{} simple{}", what, v.len(), v.windows(2).filter(|w| w[0] == w[1]).count().min(2), simple));
    acc.sample(idx, || json!({"line": format!("{:?}", v), "length": l}));
    let close = |p: Point<f64>, e: (f64, f64)| (p.x() - e.0).abs() <= tol && (p.y() - e.1).abs() <= tol;
    // the f32 instantiation at the clamped ends and in the middle (lattice coordinates are exact in f32; segment lengths are not): ratios at and beyond
    // the ends give the end points, the middle is at half the arc length
    if l > 0.0 {
        let l32 = LineString::<f32>::new(v.iter().map(|p| Coord { x: p.0 as f32, y: p.1 as f32 }).collect());
        for (r, exp) in [(0.0f32, at_arc(v, 0.0)), (-1.0, at_arc(v, 0.0)), (1.0, at_arc(v, l)), (2.0, at_arc(v, l)), (0.5, at_arc(v, 0.5 * l))] {
            let forms: Vec<(&str, Result<Option<Point<f32>>, String>)> = vec![
                ("point_at_ratio_from_start<f32>", guard(|| l32.point_at_ratio_from_start(&Euclidean, r))),
                ("point_at_ratio_from_end<f32>(1-r)", guard(|| l32.point_at_ratio_from_end(&Euclidean, 1.0 - r))),
                ("line_interpolate_point<f32> (deprecated)", guard(|| l32.line_interpolate_point(r))),
            ];
            for (op, res) in forms {
                acc.evals += 1;
                let ok = match &res {
                    Ok(Some(p)) => (p.x() as f64 - exp.0).abs() <= 1e-5 * (1.0 + l) && (p.y() as f64 - exp.1).abs() <= 1e-5 * (1.0 + l),
                    _ => false,
                };
                if !ok {
                    acc.viol(format!("{} {} wrong at a clamped end or the middle", what, op), idx, || json!({"line": format!("{:?}", v), "op": op, "ratio": r, "expected": [exp.0, exp.1], "got": format!("{:?}", res)}));
                }
            }
        }
    }
    for r in ratios(v) {
        let rc = r.clamp(0.0, 1.0);
        let exp = at_arc(v, rc * l);
        let w = |got: String, op: &str| json!({"line": format!("{:?}", v), "op": op, "ratio": r, "expected": [exp.0, exp.1], "got": got});
        // LineString forms
        let forms: Vec<(&str, Result<Option<Point<f64>>, String>)> = vec![
            ("point_at_ratio_from_start", guard(|| lsg.point_at_ratio_from_start(&Euclidean, r))),
            ("point_at_ratio_from_end(1-r)", guard(|| lsg.point_at_ratio_from_end(&Euclidean, 1.0 - r))),
            ("point_at_distance_from_start(r*L)", guard(|| lsg.point_at_distance_from_start(&Euclidean, r * l))),
            ("point_at_distance_from_end((1-r)*L)", guard(|| lsg.point_at_distance_from_end(&Euclidean, (1.0 - r) * l))),
            ("line_interpolate_point (deprecated)", guard(|| lsg.line_interpolate_point(r))),
        ];
        for (op, res) in forms {
            acc.evals += 1;
            // distance forms on a zero-length line: r*L = 0 for every r, still the same point
            match res {
                Err(e) => acc.viol(format!("{} {} panic", what, op), idx, || w(e, op)),
                // the deprecated form documents None for a line without length; the property speaks about the new forms there
                Ok(None) if l == 0.0 && op.starts_with("line_interpolate_point") => acc.count("deprecated form: None on a zero-length line (not compared)", 1),
                Ok(None) => acc.viol(format!("{} {} returned None for a non-empty line (length {})", what, op, if l > 0.0 { "positive" } else { "zero" }), idx, || w("None".into(), op)),
                Ok(Some(p)) => {
                    if !close(p, exp) {
                        acc.viol(format!("{} {} is not at arc length r*L", what, op), idx, || w(format!("{:?}", p), op));
                    }
                }
            }
        }
        // Line forms
        if let Some(line) = line {
            let forms: Vec<(&str, Result<Point<f64>, String>)> = vec![
                ("Line::point_at_ratio_from_start", guard(|| line.point_at_ratio_from_start(&Euclidean, r))),
                ("Line::point_at_ratio_from_end(1-r)", guard(|| line.point_at_ratio_from_end(&Euclidean, 1.0 - r))),
                ("Line::point_at_distance_from_start(r*L)", guard(|| line.point_at_distance_from_start(&Euclidean, r * l))),
                ("Line::point_at_distance_from_end((1-r)*L)", guard(|| line.point_at_distance_from_end(&Euclidean, (1.0 - r) * l))),
            ];
            for (op, res) in forms {
                acc.evals += 1;
                match res {
                    Err(e) => acc.viol(format!("{} panic", op), idx, || w(e, op)),
                    Ok(p) => {
                        if !close(p, exp) {
                            acc.viol(format!("{} is not at arc length r*L ({} line)", op, if l > 0.0 { "positive-length" } else { "zero-length" }), idx, || w(format!("{:?}", p), op));
                        }
                    }
                }
            }
            acc.evals += 1;
            match guard(|| line.line_interpolate_point(r)) {
                Ok(Some(p)) if close(p, exp) => {}
                other => acc.viol("Line::line_interpolate_point (deprecated) differs".into(), idx, || w(format!("{:?}", other), "Line::line_interpolate_point")),
            }
        }
        // the same line at the exact scales 2^-30 and 2^30 (every fourth case): interpolation and location must scale with it (no absolute thresholds)
        if idx % 4 == 0 && !v.is_empty() {
            for sc in [1.0 / 1073741824.0, 1073741824.0, 1.0 / 1152921504606846976.0] {
                let sl = LineString::new(v.iter().map(|&p| Coord { x: p.0 as f64 * sc, y: p.1 as f64 * sc }).collect());
                let (ex, ey) = (exp.0 * sc, exp.1 * sc);
                let near = |p: Point<f64>| (p.x() - ex).abs() <= tol * sc && (p.y() - ey).abs() <= tol * sc;
                acc.evals += 3;
                match guard(|| (sl.point_at_ratio_from_start(&Euclidean, r), sl.point_at_distance_from_end(&Euclidean, (1.0 - r) * l * sc))) {
                    Ok((Some(p), Some(q))) if near(p) && near(q) => {}
                    other => acc.viol(format!("{} interpolation does not scale with the line (scale 2^{})", what, sc.log2() as i32), idx, || w(format!("{:?}", other), "scaled point_at_ratio_from_start / point_at_distance_from_end")),
                }
                if simple && l > 0.0 {
                    let p = Point::new(ex, ey);
                    match guard(|| sl.line_locate_point(&p)) {
                        Ok(Some(f)) if (f - rc).abs() <= 1e-9 => {}
                        other => acc.viol(format!("line_locate_point does not map the interpolated point back to its ratio at scale 2^{} (simple line)", sc.log2() as i32), idx, || w(format!("{:?}", other), "scaled line_locate_point")),
                    }
                    if v.len() == 2 {
                        let ln = Line::new(sl.0[0], sl.0[1]);
                        match guard(|| ln.line_locate_point(&p)) {
                            Ok(Some(f)) if (f - rc).abs() <= 1e-9 => {}
                            other => acc.viol(format!("Line::line_locate_point does not map the interpolated point back to its ratio at scale 2^{}", sc.log2() as i32), idx, || w(format!("{:?}", other), "scaled Line::line_locate_point")),
                        }
                    }
                }
            }
        }
        // locate maps it back (simple lines only)
        if simple && l > 0.0 {
            acc.evals += 1;
            let p = Point::new(exp.0, exp.1);
            match guard(|| lsg.line_locate_point(&p)) {
                Ok(Some(f)) if (f - rc).abs() <= 1e-9 => {}
                other => acc.viol("line_locate_point does not map the interpolated point back to its ratio (simple line)".into(), idx, || w(format!("{:?}", other), "line_locate_point")),
            }
            if let Some(line) = line {
                match guard(|| line.line_locate_point(&p)) {
                    Ok(Some(f)) if (f - rc).abs() <= 1e-9 => {}
                    other => acc.viol("Line::line_locate_point does not map the interpolated point back to its ratio".into(), idx, || w(format!("{:?}", other), "Line::line_locate_point")),
                }
            }
        }
    }
}

fn check_densified(acc: &mut Acc, idx: usize, what: &str, orig: &[Coord<f64>], dens: &[Coord<f64>], max: f64) {
    let w = || json!({"what": what, "original": format!("{:?}", orig), "max_segment_length": max, "densified": format!("{:?}", dens)});
    // original vertices in order as a subsequence, inserted points on the original segment
    let mut j = 0usize;
    for i in 0..orig.len() {
        // advance to the next occurrence of orig[i]; everything skipped must lie on segment orig[i-1]..orig[i]
        let start = j;
        while j < dens.len() && dens[j] != orig[i] {
            j += 1;
        }
        if j == dens.len() {
            acc.viol(format!("densify({}) lost an original vertex or changed the order", what), idx, w);
            return;
        }
        if i > 0 {
            let (a, b) = (orig[i - 1], orig[i]);
            for p in &dens[start..j] {
                let cr = (b.x - a.x) * (p.y - a.y) - (b.y - a.y) * (p.x - a.x);
                let within = p.x >= a.x.min(b.x) - 1e-12 && p.x <= a.x.max(b.x) + 1e-12 && p.y >= a.y.min(b.y) - 1e-12 && p.y <= a.y.max(b.y) + 1e-12;
                if cr.abs() > 1e-12 * (1.0 + (b.x - a.x).abs() + (b.y - a.y).abs()) || !within {
                    acc.viol(format!("densify({}) inserted a point off the original segment", what), idx, w);
                    return;
                }
            }
        } else if j != start {
            acc.viol(format!("densify({}) inserted points before the first vertex", what), idx, w);
            return;
        }
        j += 1;
    }
    if j != dens.len() {
        acc.viol(format!("densify({}) appended points after the last vertex", what), idx, w);
        return;
    }
    let len = |v: &[Coord<f64>]| -> f64 { v.windows(2).map(|w| ((w[0].x - w[1].x).powi(2) + (w[0].y - w[1].y).powi(2)).sqrt()).sum() };
    if (len(orig) - len(dens)).abs() > 1e-12 * (1.0 + len(orig)) {
        acc.viol(format!("densify({}) changed the total length", what), idx, w);
    }
    for s in dens.windows(2) {
        let d = ((s[0].x - s[1].x).powi(2) + (s[0].y - s[1].y).powi(2)).sqrt();
        if d > max * (1.0 + 1e-12) {
            acc.viol(format!("densify({}) left a segment longer than the maximum", what), idx, w);
            return;
        }
    }
}

pub fn run(mut run: Run) -> i32 {
    let quick = run.ctx.quick();
    run.rule = "every vertex sequence of length 1..6 (thorough 7) over the 3x3 lattice with repetition (zero-length segments, repeated vertices) as LineString, every ordered pair incl. equal points as Line, x ratios {-1,0,1/8..1,1+ulp,2} and every cumulative vertex ratio: \
        ratio/distance forms from start and end, the deprecated line_interpolate_point, line_locate_point on simple lines; densify with max in {0.1,0.5,1, each segment length, total, 10 total} for LineString/Line/Polygon/Rect/Triangle; \
        oracle: arc-length walk in f64 (1e-12 relative); distinct = (type, vertex count, zero-length segments, simple)"
        .into();
    run.assumptions = vec!["tolerance 1e-12 relative to the line's extent; locate round trip 1e-9".into()];
    let g3 = grid(3);
    let kmax = if quick { 6 } else { 7 };
    for k in 1..=kmax {
        let n = 9usize.pow(k as u32);
        let g3 = g3.clone();
        run.stage(&format!("interpolate-len{}", k), n, move |idx, acc| {
            let v: Vec<IP> = nth_sequence(9, k, idx).iter().map(|&i| g3[i]).collect();
            check_line_like(acc, idx, &v, "LineString");
        });
    }
    // empty line string
    run.stage("interpolate-empty", 1, |idx, acc| {
        let e = LineString::<f64>::new(vec![]);
        acc.evals += 2;
        acc.class("empty".into());
        let r = guard(|| (e.point_at_ratio_from_start(&Euclidean, 0.5), e.point_at_distance_from_end(&Euclidean, 1.0)));
        if r != Ok((None, None)) {
            acc.viol("interpolation on an empty LineString is not None".into(), idx, || json!({"result": format!("{:?}", r)}));
        }
    });
    // densify
    let dk = if quick { 5 } else { 6 };
    for k in 2..=dk {
        let n = 9usize.pow(k as u32);
        let g3 = g3.clone();
        run.stage(&format!("densify-len{}", k), n, move |idx, acc| {
            let v: Vec<IP> = nth_sequence(9, k, idx).iter().map(|&i| g3[i]).collect();
            let l = total_len(&v);
            let mut maxes = vec![0.1, 0.5, 1.0, 100.0];
            for w in v.windows(2) {
                let s = seg_len(w[0], w[1]);
                if s > 0.0 {
                    maxes.push(s);
                    maxes.push(s / 3.0);
                }
            }
            if l > 0.0 {
                maxes.push(l);
                maxes.push(10.0 * l);
            }
            let lsg = ls(&v);
            acc.class(format!("densify n{} zero{}", k, v.windows(2).filter(|w| w[0] == w[1]).count().min(2)));
            acc.sample(idx, || json!({"line": format!("{:?}", v), "max_lengths": maxes}));
            for &m in &maxes {
                acc.evals += 1;
                match guard(|| Euclidean.densify(&lsg, m)) {
                    Ok(d) => check_densified(acc, idx, "LineString", &lsg.0, &d.0, m),
                    Err(e) => acc.viol("densify(LineString) panic".into(), idx, || json!({"line": format!("{:?}", v), "max": m, "panic": e})),
                }
                if k == 2 {
                    let line = Line::new(c(v[0]), c(v[1]));
                    acc.evals += 1;
                    match guard(|| Euclidean.densify(&line, m)) {
                        Ok(d) => check_densified(acc, idx, "Line", &[line.start, line.end], &d.0, m),
                        Err(e) => acc.viol("densify(Line) panic".into(), idx, || json!({"line": format!("{:?}", v), "max": m, "panic": e})),
                    }
                    if v[0].0 != v[1].0 && v[0].1 != v[1].1 {
                        let r = Rect::new(c(v[0]), c(v[1]));
                        acc.evals += 1;
                        match guard(|| Euclidean.densify(&r, m)) {
                            Ok(d) => check_densified(acc, idx, "Rect", &r.to_polygon().exterior().0, &d.exterior().0, m),
                            Err(e) => acc.viol("densify(Rect) panic".into(), idx, || json!({"rect": format!("{:?}", r), "max": m, "panic": e})),
                        }
                    }
                }
                if k == 3 {
                    let pg = Polygon::new(ls(&v), vec![ls(&v)]);
                    acc.evals += 2;
                    match guard(|| Euclidean.densify(&pg, m)) {
                        Ok(d) => {
                            check_densified(acc, idx, "Polygon exterior", &pg.exterior().0, &d.exterior().0, m);
                            if d.interiors().len() != 1 {
                                acc.viol("densify changed the number of rings / members".into(), idx, || json!({"polygon": format!("{:?}", pg), "max": m, "densified": format!("{:?}", d)}));
                            } else {
                                check_densified(acc, idx, "Polygon interior", &pg.interiors()[0].0, &d.interiors()[0].0, m);
                            }
                        }
                        Err(e) => acc.viol("densify(Polygon) panic".into(), idx, || json!({"polygon": format!("{:?}", pg), "max": m, "panic": e})),
                    }
                    // three different interior rings, and Multi* wrappers: every ring / member stays at its position
                    {
                        let sh = |dx: f64, rev: bool| -> LineString<f64> {
                            let mut q: Vec<Coord<f64>> = v.iter().map(|&p| Coord { x: p.0 as f64 + dx, y: p.1 as f64 }).collect();
                            if rev {
                                q.reverse();
                            }
                            LineString::new(q)
                        };
                        let rings = vec![sh(0.0, false), sh(5.0, true), sh(10.0, false), sh(15.0, true)];
                        let pg3 = Polygon::new(rings[0].clone(), rings[1..].to_vec());
                        let mls = geo::MultiLineString(rings.clone());
                        let mpg = geo::MultiPolygon(rings.iter().map(|r| Polygon::new(r.clone(), vec![])).collect());
                        acc.evals += 3;
                        match guard(|| (Euclidean.densify(&pg3, m), Euclidean.densify(&mls, m), Euclidean.densify(&mpg, m))) {
                            Ok((d, dl, dp)) => {
                                if d.interiors().len() != 3 || dl.0.len() != 4 || dp.0.len() != 4 {
                                    acc.viol("densify changed the number of rings / members".into(), idx, || json!({"polygon": format!("{:?}", pg3), "max": m}));
                                } else {
                                    check_densified(acc, idx, "Polygon with three interiors: exterior", &pg3.exterior().0, &d.exterior().0, m);
                                    for i in 0..3 {
                                        check_densified(acc, idx, "Polygon with three interiors: interior at its position", &pg3.interiors()[i].0, &d.interiors()[i].0, m);
                                    }
                                    for i in 0..4 {
                                        check_densified(acc, idx, "MultiLineString member at its position", &mls.0[i].0, &dl.0[i].0, m);
                                        check_densified(acc, idx, "MultiPolygon member at its position", &mpg.0[i].exterior().0, &dp.0[i].exterior().0, m);
                                    }
                                }
                            }
                            Err(e) => acc.viol("densify(Polygon with three interiors / Multi*) panic".into(), idx, || json!({"polygon": format!("{:?}", pg3), "max": m, "panic": e})),
                        }
                    }
                    let t = Triangle(c(v[0]), c(v[1]), c(v[2]));
                    match guard(|| Euclidean.densify(&t, m)) {
                        Ok(d) => check_densified(acc, idx, "Triangle", &t.to_polygon().exterior().0, &d.exterior().0, m),
                        Err(e) => acc.viol("densify(Triangle) panic".into(), idx, || json!({"triangle": format!("{:?}", t), "max": m, "panic": e})),
                    }
                }
            }
        });
    }
    // many pieces per edge (10^3 .. 10^6), f64 and f32: inserted points in order along the edge and inside it, no piece longer than the maximum beyond the
    // rounding of the coordinates (4 ulp of the coordinate magnitude)
    {
        let cases: Vec<((f64, f64), (f64, f64), f64)> = vec![
            ((0.0, 0.0), (1.0, 0.0), 1e-3), ((0.0, 0.0), (1.0, 0.0), 1e-5), ((0.0, 0.0), (3.0, 0.0), 1e-4), ((0.0, 0.0), (0.0, -1.0), 1e-5), ((1.0, 1.0), (2.0, 3.0), 3e-5),
            ((0.0, 0.0), (1.0, 0.0), 1e-6), ((-1.0, 2.0), (1.0, -2.0), 7e-5), ((0.0, 0.0), (1000.0, 0.0), 0.01), ((5.0, 5.0), (5.0, 6.0), 1.5e-5),
        ];
        run.stage("densify-many-pieces", cases.len() * 2, |idx, acc| {
            let (a, b, max) = cases[idx / 2];
            let f32_twin = idx % 2 == 1;
            acc.class(format!("many pieces {}", if f32_twin { "f32" } else { "f64" }));
            macro_rules! go {
                ($t:ty, $ulp:expr) => {{
                    let line = Line::new(Coord::<$t> { x: a.0 as $t, y: a.1 as $t }, Coord::<$t> { x: b.0 as $t, y: b.1 as $t });
                    acc.evals += 1;
                    match guard(|| Euclidean.densify(&line, max as $t)) {
                        Err(e) => acc.viol(format!("densify<{}> with many pieces panic", stringify!($t)), idx, || json!({"line": format!("{:?}", line), "max": max, "panic": e})),
                        Ok(d) => {
                            let pts: Vec<(f64, f64)> = d.0.iter().map(|c| (c.x as f64, c.y as f64)).collect();
                            let (ax, ay, bx, by) = (a.0, a.1, b.0, b.1);
                            let len = ((bx - ax).powi(2) + (by - ay).powi(2)).sqrt();
                            let mag = ax.abs().max(ay.abs()).max(bx.abs()).max(by.abs());
                            let slack = 4.0 * $ulp * mag;
                            let mut bad: Option<String> = None;
                            if pts.first() != Some(&(ax, ay)) || pts.last() != Some(&(bx, by)) {
                                bad = Some("end points not kept".into());
                            }
                            let mut last_t = -1.0;
                            let mut worst = 0.0f64;
                            for (i, p) in pts.iter().enumerate() {
                                let t = ((p.0 - ax) * (bx - ax) + (p.1 - ay) * (by - ay)) / (len * len);
                                let off = ((p.0 - ax) * (by - ay) - (p.1 - ay) * (bx - ax)).abs() / len;
                                if t < -slack / len || t > 1.0 + slack / len || off > slack {
                                    bad = Some(format!("point {} = {:?} is not on the segment (parameter {}, offset {})", i, p, t, off));
                                    break;
                                }
                                if t < last_t - slack / len {
                                    bad = Some(format!("point {} goes backwards along the segment", i));
                                    break;
                                }
                                if i > 0 {
                                    let q = pts[i - 1];
                                    worst = worst.max(((p.0 - q.0).powi(2) + (p.1 - q.1).powi(2)).sqrt());
                                }
                                last_t = t;
                            }
                            acc.maxf(&format!("longest piece / max ({})", stringify!($t)), worst / max);
                            if bad.is_none() && worst > max + 2.0 * slack {
                                bad = Some(format!("longest piece {} exceeds the maximum {}", worst, max));
                            }
                            if bad.is_none() && (pts.len() as f64) > len / max + 3.0 {
                                bad = Some(format!("{} points for about {} pieces", pts.len(), (len / max).ceil()));
                            }
                            if let Some(msg) = bad {
                                acc.viol(format!("densify<{}> of one edge into many pieces: {}", stringify!($t), if msg.contains("not on the segment") { "a point is not on the segment" } else if msg.contains("backwards") { "a point goes backwards" } else if msg.contains("exceeds") { "the longest piece exceeds the maximum" } else if msg.contains("points for") { "too many points" } else { "end points not kept" }), idx, || json!({"line": format!("{:?}", line), "max": max, "points": pts.len(), "detail": msg}));
                            }
                        }
                    }
                }};
            }
            if f32_twin {
                go!(f32, 1.1920929e-7);
            } else {
                go!(f64, 2.220446049250313e-16);
            }
        });
    }
    run.finish()
}

//! C03 Orientation and point-location predicates are exact for all f64 input:
//! every point of ulp-lattice windows around ill-conditioned base configurations, against exact
//! big-integer arithmetic on the dyadic rationals the f64s denote.
use crate::bigf::{self, next_up, F2};
use crate::engine::*;
use geo::algorithm::convex_hull::{graham_hull, quick_hull};
use geo::algorithm::line_intersection::line_intersection;
use geo::coordinate_position::{coord_pos_relative_to_ring, CoordPos};
use geo::kernels::{Kernel, Orientation};
use geo::winding_order::WindingOrder;
use geo::{Contains, Coord, CoordinatePosition, GeoNum, Intersects, Line, LineString, Polygon, Rect, Triangle, Winding};
use serde_json::json;

fn co(p: F2) -> Coord<f64> {
    Coord { x: p.0, y: p.1 }
}
fn osign(o: Orientation) -> i32 {
    match o {
        Orientation::CounterClockwise => 1,
        Orientation::Clockwise => -1,
        Orientation::Collinear => 0,
    }
}
fn naive(a: F2, b: F2, c: F2) -> i32 {
    let d = (b.0 - a.0) * (c.1 - a.1) - (b.1 - a.1) * (c.0 - a.0);
    if d > 0.0 {
        1
    } else if d < 0.0 {
        -1
    } else {
        0
    }
}
fn pos3(p: CoordPos) -> i32 {
    match p {
        CoordPos::Outside => 0,
        CoordPos::OnBoundary => 1,
        CoordPos::Inside => 2,
    }
}

/// base configuration: a window centre (the query point ranges over the window) and fixed partner points
struct Base {
    name: &'static str,
    centre: F2,
    p: F2,
    q: F2,
    /// extra fixed point for segment/segment and triangle tests
    r: F2,
}
fn bases() -> Vec<Base> {
    let m52 = 4503599627370496.0; // 2^52
    let m51 = 2251799813685248.0;
    vec![
        Base { name: "shewchuk(0.5,0.5)-(12,12)-(24,24)", centre: (0.5, 0.5), p: (12.0, 12.0), q: (24.0, 24.0), r: (18.0, 18.000000000000004) },
        Base { name: "long-segment-2^52", centre: (1.0, 2.0), p: (-m52, -m52), q: (m52, m52 + 2.0), r: (3.0, 1.0) },
        Base { name: "collinear-integers-2^51", centre: (m51, m51), p: (1.0, 1.0), q: (m52 - 1.0, m52 - 1.0), r: (m51, 7.0) },
        Base { name: "nearly-parallel", centre: (1.0, 1.0000000000000002), p: (-1000000.0, -1000000.0), q: (1000000.0, 1000000.0000000002), r: (0.0, 0.0000000000000001) },
        Base { name: "thin-triangle", centre: (50000000.0, 0.5), p: (0.0, 0.0), q: (100000000.0, 1.0), r: (100000000.0, 1.00000001) },
        Base { name: "mixed-magnitudes", centre: (9.313225746154785e-10, 9.313225746154785e-10), p: (-1073741824.0, -1073741824.0), q: (1073741824.0, 1073741824.0000002), r: (1.0, -1.0) },
        Base { name: "steep-far-origin", centre: (100000000.25, 300000000.75), p: (100000000.0, 300000000.0), q: (100000001.0, 300000003.0), r: (99999999.0, 300000000.0) },
        // UTM-like metre coordinates: differences are not exactly representable and the rounding error of the plain determinant (~1e-5)
        // is far above any absolute epsilon while the true determinant near the segment is ~1e-10
        Base { name: "utm-segment-midpoint", centre: (450162.59, 4655939.075), p: (443201.31, 4649776.22), q: (457123.87, 4662101.93), r: (450000.5, 4650000.25) },
        Base { name: "utm-collinear-extension", centre: (471046.43, 4674427.64), p: (443201.31, 4649776.22), q: (457123.87, 4662101.93), r: (460000.0, 4640000.0) },
        Base { name: "web-mercator-sliver", centre: (-8237642.318702244, 4970241.327215406), p: (-8238310.235647004, 4969803.0), q: (-8236974.401757484, 4970679.654430812), r: (-8237000.25, 4969000.5) },
        // asymmetric line through the origin with ~2^52 coordinates; the window centre q/16 is exactly collinear, the products differ in rounding
        Base { name: "asymmetric-2^52-collinear", centre: (3689364599452149.0 / 16.0, 1410109763140548.0 / 16.0), p: (0.0, 0.0), q: (3689364599452149.0, 1410109763140548.0), r: (3689364599452149.0, 0.0) },
        // one endpoint small with many significant bits, the other ~1e6: coordinate differences are themselves rounded
        Base { name: "small-endpoint-large-far", centre: (617284.0, 3827160.8), p: (0.1, 0.3), q: (1234567.9, 7654321.3), r: (1000000.0, -50000.5) },
        Base { name: "small-endpoint-1e9", centre: (-216049382.6875, -327160493.75), p: (0.7, -0.9), q: (-432098766.075, -654320986.6), r: (5.5, -700000000.25) },
        Base { name: "negative-quadrant", centre: (-0.7, -2.1), p: (-7.0, -21.0), q: (-70.0, -210.0), r: (0.0, 0.0) },
    ]
}

pub fn run(mut run: Run) -> i32 {
    let w: i64 = run.ctx.pick(192, 1536);
    run.rule = "for each of 14 ill-conditioned base configurations the query point ranges over ALL w x w points of the ulp lattice around the window centre (quick w=192, thorough w=1536): \
        orient2d (f64 and f32), Line intersects Coord, Line intersects Line, line_intersection is_some, coord_pos_relative_to_ring, Polygon/Triangle/Rect coordinate_position and contains, winding_order, \
        quick_hull/graham_hull vertex sets, all against exact big-integer arithmetic on the dyadic values; integer kernels on all lattice triples at large magnitude; \
        distinct_nontrivial = number of window points where the naive f64 determinant has the wrong sign (the inputs where robustness matters)"
        .into();
    run.assumptions = vec![
        "exact oracle: harness/src/bigf.rs (schoolbook big integers), independent of the robust crate".into(),
        "values outside the enumerated windows are not covered (the domain 'all finite f64' cannot be enumerated)".into(),
    ];
    let bs = bases();
    let nb = bs.len();
    let ww = (w * w) as usize;
    run.stage("ulp-windows", nb * ww, |idx, acc| {
        let b = &bs[idx / ww];
        let k = (idx % ww) as i64;
        let (i, j) = (k / w - w / 2, k % w - w / 2);
        let c: F2 = (next_up(b.centre.0, i), next_up(b.centre.1, j));
        let ex = bigf::orient(b.p, b.q, c);
        let nv = naive(b.p, b.q, c);
        if nv != ex {
            acc.count("naive_formula_wrong", 1);
            acc.count(&format!("naive_formula_wrong[{}]", b.name), 1);
        }
        acc.class(format!("{} exact-sign{} naive{}", b.name, ex, if nv == ex { "ok" } else { "wrong" }));
        acc.sample(idx, || json!({"base": b.name, "query": [c.0, c.1], "p": [b.p.0, b.p.1], "q": [b.q.0, b.q.1], "exact_orientation": ex, "naive": nv}));
        let wit = |got: String, exp: String| json!({"base": b.name, "query": [c.0, c.1], "query_bits": [format!("{:016x}", c.0.to_bits()), format!("{:016x}", c.1.to_bits())], "p": [b.p.0, b.p.1], "q": [b.q.0, b.q.1], "r": [b.r.0, b.r.1], "expected": exp, "got": got});
        macro_rules! expect {
            ($what:expr, $got:expr, $exp:expr) => {{
                acc.evals += 1;
                let (g, e) = ($got, $exp);
                if g != e {
                    acc.viol(format!("{} wrong [{}]", $what, b.name), idx, || wit(format!("{:?}", g), format!("{:?}", e)));
                }
            }};
        }
        // orient2d in all argument rotations
        expect!("orient2d(p,q,c)", osign(<f64 as GeoNum>::Ker::orient2d(co(b.p), co(b.q), co(c))), ex);
        expect!("orient2d(q,c,p)", osign(<f64 as GeoNum>::Ker::orient2d(co(b.q), co(c), co(b.p))), ex);
        expect!("orient2d(c,q,p)", osign(<f64 as GeoNum>::Ker::orient2d(co(c), co(b.q), co(b.p))), -ex);
        // the free function for the winding of a triangle (public, used by the stitcher): same three points, both vertex orders
        {
            use geo::winding_order::triangle_winding_order;
            let ws = |w: Option<WindingOrder>| match w { Some(WindingOrder::CounterClockwise) => 1, Some(WindingOrder::Clockwise) => -1, None => 0 };
            expect!("triangle_winding_order(p,q,c)", ws(triangle_winding_order(&Triangle(co(b.p), co(b.q), co(c)))), ex);
            expect!("triangle_winding_order(c,q,p)", ws(triangle_winding_order(&Triangle(co(c), co(b.q), co(b.p)))), -ex);
        }
        // point on segment
        let seg = Line::new(co(b.p), co(b.q));
        expect!("Line intersects Coord", seg.intersects(&co(c)), bigf::on_segment(b.p, b.q, c));
        expect!("Coord intersects Line", co(c).intersects(&seg), bigf::on_segment(b.p, b.q, c));
        // segment-segment: (c -> r) against (p -> q)
        let s2 = Line::new(co(c), co(b.r));
        let ex_ss = bigf::segments_intersect(b.p, b.q, c, b.r);
        expect!("Line intersects Line", seg.intersects(&s2), ex_ss);
        expect!("Line intersects Line (swapped)", s2.intersects(&seg), ex_ss);
        expect!("line_intersection is_some", line_intersection(seg, s2).is_some(), ex_ss);
        // triangle (p,q,r) and the same as ring / polygon; query c
        let tri = [b.p, b.q, b.r];
        if bigf::orient(b.p, b.q, b.r) != 0 {
            let ex_pos = bigf::point_in_ring(&tri, c);
            let ring = LineString::new(vec![co(b.p), co(b.q), co(b.r), co(b.p)]);
            expect!("coord_pos_relative_to_ring", pos3(coord_pos_relative_to_ring(co(c), &ring)), ex_pos);
            let pg = Polygon::new(ring.clone(), vec![]);
            expect!("Polygon::coordinate_position", pos3(pg.coordinate_position(&co(c))), ex_pos);
            expect!("Polygon contains Coord", pg.contains(&co(c)), ex_pos == 2);
            expect!("Polygon intersects Coord", pg.intersects(&co(c)), ex_pos != 0);
            // the same ring written in the other direction (the upward- and downward-edge branches of the ring walk swap roles)
            let ring_rev = LineString::new(vec![co(b.p), co(b.r), co(b.q), co(b.p)]);
            expect!("coord_pos_relative_to_ring (reversed ring)", pos3(coord_pos_relative_to_ring(co(c), &ring_rev)), ex_pos);
            expect!("Polygon::coordinate_position (reversed ring)", pos3(Polygon::new(ring_rev.clone(), vec![]).coordinate_position(&co(c))), ex_pos);
            // as a hole of a big square: inside the hole = outside the polygon
            {
                let m = 1e17;
                let big = LineString::new(vec![Coord { x: -m, y: -m }, Coord { x: m, y: -m }, Coord { x: m, y: m }, Coord { x: -m, y: m }, Coord { x: -m, y: -m }]);
                let holed = Polygon::new(big, vec![ring_rev.clone()]);
                expect!("Polygon::coordinate_position (ring as a hole)", pos3(holed.coordinate_position(&co(c))), 2 - ex_pos);
            }
            let t = Triangle(co(b.p), co(b.q), co(b.r));
            expect!("Triangle::coordinate_position", pos3(t.coordinate_position(&co(c))), ex_pos);
            expect!("Triangle contains Coord", t.contains(&co(c)), ex_pos == 2);
            expect!("Triangle intersects Coord", t.intersects(&co(c)), ex_pos != 0);
            // winding of the ring (c, q, r): exact area sign
            let r2 = [c, b.q, b.r];
            let ex_w = bigf::ring_area_sign(&r2);
            let ring2 = LineString::new(vec![co(c), co(b.q), co(b.r), co(c)]);
            let got_w = match ring2.winding_order() {
                Some(WindingOrder::CounterClockwise) => 1,
                Some(WindingOrder::Clockwise) => -1,
                None => 0,
            };
            expect!("winding_order", got_w, ex_w);
        }
        // Rect with a corner at the window centre: boundary/inside by exact comparison
        let rect = Rect::new(co(b.centre), co((b.centre.0 + (b.centre.0.abs() + 1.0), b.centre.1 + (b.centre.1.abs() + 1.0))));
        let (mn, mx) = (rect.min(), rect.max());
        let ex_r = if c.0 < mn.x || c.0 > mx.x || c.1 < mn.y || c.1 > mx.y {
            0
        } else if c.0 == mn.x || c.0 == mx.x || c.1 == mn.y || c.1 == mx.y {
            1
        } else {
            2
        };
        expect!("Rect::coordinate_position", pos3(rect.coordinate_position(&co(c))), ex_r);
        // f32 kernel on the f32 roundings of the configuration (exact on those values)
        let (pf, qf, cf) = ((b.p.0 as f32, b.p.1 as f32), (b.q.0 as f32, b.q.1 as f32), (f32::from_bits((b.centre.0 as f32).to_bits().wrapping_add(i as u32)), f32::from_bits((b.centre.1 as f32).to_bits().wrapping_add(j as u32))));
        if cf.0.is_finite() && cf.1.is_finite() {
            let ex32 = bigf::orient((pf.0 as f64, pf.1 as f64), (qf.0 as f64, qf.1 as f64), (cf.0 as f64, cf.1 as f64));
            expect!("orient2d<f32>", osign(<f32 as GeoNum>::Ker::orient2d(Coord { x: pf.0, y: pf.1 }, Coord { x: qf.0, y: qf.1 }, Coord { x: cf.0, y: cf.1 })), ex32);
        }
    });
    // Inputs built to sit at the edge of the error bound of a semi-static filter in front of the adaptive predicate: a correct filter
    // (Shewchuk: (3+16u)u * (|detleft|+|detright|)) and the adaptive code agree with exact arithmetic here, a filter with a smaller
    // constant does not. Construction (pivot r next to the origin, p and q on opposite sides of it on a line of negative slope):
    //   p = (X+i ulp, -(Y+j' ulp)), q = (-(X+i' ulp), Y+j ulp), r = (tx ulp, ty ulp), X = 1, Y = 1.49, 0 < |tx|,|ty| < 1/2,
    // so that all four coordinate differences round (by tx, ty of an ulp, in the direction that pushes the two products apart), the
    // factors have significands (1, 1.49) - the product significand stays just under 1.5 - and the low bits of (i,j), (i',j') drive the
    // rounding of the two products; (i',j') = (i+a, j-round(aY)+b) keeps the two products within a few ulps of each other.
    // All (i,j,a,b) of a window x 9 (tx,ty) x 2 magnitudes are enumerated.
    {
        let wf: i64 = run.ctx.pick(24, 80);
        let ts = [0.49f64, 0.47, -0.49];
        let (na, nb) = (5i64, 9i64); // a in -2..=2, b in -4..=4
        let n4 = (wf * wf * na * nb) as usize;
        let ulp = f64::EPSILON; // ulp of values in [1,2)
        let y0 = 1.49f64;
        let i0: i64 = 1 << 26;
        let j0: i64 = 1 << 25;
        run.stage("semi-static-filter-adversarial", n4 * 9 * 2, |idx, acc| {
            let (t, rest) = (idx % 18, idx / 18);
            let (tx, ty, big) = (ts[t % 3], ts[(t / 3) % 3], t / 9 == 1);
            let k = rest as i64;
            let (di, dj, a, b) = (k % wf, (k / wf) % wf, (k / (wf * wf)) % na - 2, k / (wf * wf * na) - 4);
            let sc = if big { 2f64.powi(50) } else { 1.0 };
            // |px|,|qx| = 1 + i ulp, 1 + (i+a) ulp; |qy|,|py| = Y + j ulp, Y + j' ulp with j' chosen so that the two products differ by about b ulps
            let (i, j) = (i0 + di * 7 + 1, j0 + dj * 11 + 1);
            let i2 = i + a;
            let j2 = j - ((a as f64) * y0).round() as i64 + b;
            let px = next_up(1.0, i);
            let qy = next_up(y0, j);
            let qx = -next_up(1.0, i2);
            let py = -next_up(y0, j2);
            let (p, q, r): (F2, F2, F2) = ((px * sc, py * sc), (qx * sc, qy * sc), (tx * ulp * sc, ty * ulp * sc));
            let ex = bigf::orient(p, q, r);
            // what plain floating point (pivot r, as in Shewchuk's orient2d) would say, and how far from zero relative to the operands
            let (dl, dr) = ((p.0 - r.0) * (q.1 - r.1), (p.1 - r.1) * (q.0 - r.0));
            let det = dl - dr;
            let nsign = if det > 0.0 { 1 } else if det < 0.0 { -1 } else { 0 };
            let sum = dl.abs() + dr.abs();
            if nsign != ex {
                acc.count("filter-adversarial: naive determinant has the wrong sign", 1);
                for (c, name) in [(1.0, "1u"), (2.0, "2u"), (2.5, "2.5u"), (2.9, "2.9u")] {
                    if det.abs() > c * (f64::EPSILON / 2.0) * sum {
                        acc.count(&format!("filter-adversarial: wrong sign AND |det| > {} * detsum (a filter with that bound would be wrong)", name), 1);
                    }
                }
            }
            acc.class(format!("filter-adversarial exact{} naive{}", ex, nsign));
            acc.sample(idx, || json!({"p": [p.0, p.1], "q": [q.0, q.1], "r": [r.0, r.1], "exact_orientation": ex, "naive_det": det}));
            let wit = |got: i32| json!({"p": [p.0, p.1], "q": [q.0, q.1], "r": [r.0, r.1], "bits": format!("{:016x} {:016x} {:016x} {:016x} {:016x} {:016x}", p.0.to_bits(), p.1.to_bits(), q.0.to_bits(), q.1.to_bits(), r.0.to_bits(), r.1.to_bits()), "expected": ex, "got": got});
            for (name, a, b, c, sgn) in [("orient2d(p,q,r)", p, q, r, 1), ("orient2d(q,r,p)", q, r, p, 1), ("orient2d(r,p,q)", r, p, q, 1), ("orient2d(q,p,r)", q, p, r, -1)] {
                acc.evals += 1;
                let got = osign(<f64 as GeoNum>::Ker::orient2d(co(a), co(b), co(c)));
                if got != sgn * ex {
                    acc.viol(format!("{} wrong (expected {}) [semi-static-filter-adversarial]", name, sgn * ex), idx, || wit(got));
                }
            }
            // the ring (p,q,r) in every rotation: winding = exact area sign; r on segment p-q iff exactly collinear and between
            let ring = [p, q, r];
            let ex_w = bigf::ring_area_sign(&ring);
            for rot in 0..3 {
                let v: Vec<Coord<f64>> = (0..4).map(|t| co(ring[(rot + t) % 3])).collect();
                acc.evals += 1;
                let got_w = match LineString::new(v).winding_order() {
                    Some(WindingOrder::CounterClockwise) => 1,
                    Some(WindingOrder::Clockwise) => -1,
                    None => 0,
                };
                if got_w != ex_w {
                    acc.viol("winding_order wrong [semi-static-filter-adversarial]".into(), idx, || wit(got_w));
                }
            }
            acc.evals += 1;
            let on = Line::new(co(p), co(q)).intersects(&co(r));
            if on != bigf::on_segment(p, q, r) {
                acc.viol("Line intersects Coord wrong [semi-static-filter-adversarial]".into(), idx, || wit(on as i32));
            }
        });
    }
    // hull vertex sets on window points (rounding in the farthest-point search)
    let rows = w as usize;
    run.stage("ulp-window-hulls", nb * rows, |idx, acc| {
        let b = &bs[idx / rows];
        let i = (idx % rows) as i64 - w / 2;
        let mut pts: Vec<F2> = vec![b.p, b.q, b.r];
        for t in 0..6i64 {
            let j = (t * w / 6) - w / 2 + (i.rem_euclid(3));
            pts.push((next_up(b.centre.0, i + t), next_up(b.centre.1, j)));
        }
        // exact strict hull by monotone chain with exact orientation
        let mut s = pts.clone();
        s.sort_by(|a, b| a.partial_cmp(b).unwrap());
        s.dedup();
        let mut h: Vec<F2> = vec![];
        for &q in &s {
            while h.len() >= 2 && bigf::orient(h[h.len() - 2], h[h.len() - 1], q) <= 0 {
                h.pop();
            }
            h.push(q);
        }
        let lo = h.len() + 1;
        for &q in s.iter().rev().skip(1) {
            while h.len() >= lo && bigf::orient(h[h.len() - 2], h[h.len() - 1], q) <= 0 {
                h.pop();
            }
            h.push(q);
        }
        h.pop();
        if h.len() < 3 {
            return;
        }
        let mut want: Vec<(u64, u64)> = h.iter().map(|p| (p.0.to_bits(), p.1.to_bits())).collect();
        want.sort();
        for (name, ring) in [
            ("quick_hull", guard(|| quick_hull(&mut pts.iter().map(|&p| co(p)).collect::<Vec<_>>()))),
            ("graham_hull", guard(|| graham_hull(&mut pts.iter().map(|&p| co(p)).collect::<Vec<_>>(), false))),
        ] {
            acc.evals += 1;
            match ring {
                Err(p) => acc.viol(format!("{} panic on window points [{}]", name, b.name), idx, || json!({"points": format!("{:?}", pts), "panic": p})),
                Ok(r) => {
                    let mut got: Vec<(u64, u64)> = r.0[..r.0.len().saturating_sub(1)].iter().map(|c| (c.x.to_bits(), c.y.to_bits())).collect();
                    got.sort();
                    acc.class(format!("hull {} size{}", b.name, want.len()));
                    if got != want {
                        let mut dd = got.clone();
                        dd.dedup();
                        let kind = if dd.len() != got.len() {
                            "repeats a vertex"
                        } else if want.iter().all(|w| got.contains(w)) {
                            "keeps a non-hull vertex"
                        } else {
                            "misses a hull vertex"
                        };
                        acc.viol(format!("{} {} on ill-conditioned ulp-window points", name, kind), idx, || {
                            json!({"points": format!("{:?}", pts), "got": format!("{:?}", r), "exact_hull": format!("{:?}", h)})
                        });
                    }
                }
            }
        }
    });
    // integer kernels: all triples of a 5x5 lattice at offsets where the products still fit
    let g: Vec<(i64, i64)> = (0..5).flat_map(|x| (0..5).map(move |y| (x, y))).collect();
    let ng = g.len();
    let offs64: [(i64, i64, i64); 3] = [(0, 0, 1), (1 << 29, -(1 << 29), 1), (-(1 << 28), 1 << 27, 1 << 20)];
    run.stage("integer-kernels", ng * ng * ng * 3, |idx, acc| {
        let (o, t) = (offs64[idx % 3], idx / 3);
        let (a, b, c) = (g[t / (ng * ng)], g[(t / ng) % ng], g[t % ng]);
        let f = |p: (i64, i64)| (p.0 * o.2 + o.0, p.1 * o.2 + o.1);
        let (a, b, c) = (f(a), f(b), f(c));
        let ex = ((b.0 - a.0) as i128 * (c.1 - a.1) as i128 - (b.1 - a.1) as i128 * (c.0 - a.0) as i128).signum() as i32;
        acc.evals += 2;
        acc.class(format!("int sign{} off{}", ex, idx % 3));
        let got = osign(<i64 as GeoNum>::Ker::orient2d(Coord { x: a.0, y: a.1 }, Coord { x: b.0, y: b.1 }, Coord { x: c.0, y: c.1 }));
        if got != ex {
            acc.viol("orient2d<i64> wrong".into(), idx, || json!({"a": format!("{:?}", a), "b": format!("{:?}", b), "c": format!("{:?}", c), "expected": ex, "got": got}));
        }
        // i32 at a magnitude where products fit i32: coordinates within +-2^13
        let s = |p: (i64, i64)| Coord { x: ((p.0 % 8192) as i32), y: ((p.1 % 8192) as i32) };
        let (a3, b3, c3) = (s(a), s(b), s(c));
        let ex3 = ((b3.x - a3.x) as i64 * (c3.y - a3.y) as i64 - (b3.y - a3.y) as i64 * (c3.x - a3.x) as i64).signum() as i32;
        let got3 = osign(<i32 as GeoNum>::Ker::orient2d(a3, b3, c3));
        if got3 != ex3 {
            acc.viol("orient2d<i32> wrong".into(), idx, || json!({"a": format!("{:?}", a3), "b": format!("{:?}", b3), "c": format!("{:?}", c3), "expected": ex3, "got": got3}));
        }
        let l = Line::new(Coord { x: a.0, y: a.1 }, Coord { x: b.0, y: b.1 });
        let on = ex == 0 && c.0 >= a.0.min(b.0) && c.0 <= a.0.max(b.0) && c.1 >= a.1.min(b.1) && c.1 <= a.1.max(b.1);
        if l.intersects(&Coord { x: c.0, y: c.1 }) != on {
            acc.viol("Line<i64> intersects Coord wrong".into(), idx, || json!({"a": format!("{:?}", a), "b": format!("{:?}", b), "c": format!("{:?}", c), "expected": on}));
        }
    });
    // integer kernels, near-collinear triples at magnitudes where every product still fits the type but exceeds 2^53 (i64) / 2^24 (i32):
    // a = o, b = o + (M+i, M+j), c = o + (2M+k, 2M+l), all (i,j,k,l) in 0..8; determinant = M(l-k) + 2M(i-j) + il - jk
    let offs: [(i64, i64); 2] = [(0, 0), (-(1 << 29), 1 << 28)];
    run.stage("integer-near-collinear", 4096 * 2, |idx, acc| {
        let (o, t) = (offs[idx % 2], (idx / 2) as i64);
        let (i, j, k, l) = (t % 8, (t / 8) % 8, (t / 64) % 8, t / 512);
        // i64, M = 2^30
        {
            let m: i64 = 1 << 30;
            let (a, b, c) = (o, (o.0 + m + i, o.1 + m + j), (o.0 + 2 * m + k, o.1 + 2 * m + l));
            let det = (b.0 - a.0) as i128 * (c.1 - a.1) as i128 - (b.1 - a.1) as i128 * (c.0 - a.0) as i128;
            let ex = det.signum() as i32;
            acc.evals += 4;
            acc.class(format!("int-near-collinear i64 sign{} |det|<=3:{}", ex, det.abs() <= 3));
            acc.sample(idx, || json!({"a": format!("{:?}", a), "b": format!("{:?}", b), "c": format!("{:?}", c), "exact_determinant": det.to_string()}));
            let (ca, cb, cc) = (Coord { x: a.0, y: a.1 }, Coord { x: b.0, y: b.1 }, Coord { x: c.0, y: c.1 });
            let wit = |got: String| json!({"a": format!("{:?}", a), "b": format!("{:?}", b), "c": format!("{:?}", c), "exact_determinant": det.to_string(), "got": got});
            for (name, x, y, z, sg) in [("orient2d<i64>(a,b,c)", ca, cb, cc, 1), ("orient2d<i64>(b,c,a)", cb, cc, ca, 1), ("orient2d<i64>(c,b,a)", cc, cb, ca, -1)] {
                let got = osign(<i64 as GeoNum>::Ker::orient2d(x, y, z));
                if got != sg * ex {
                    acc.viol(format!("{} wrong on a near-collinear triple whose products fit i64", name), idx, || wit(got.to_string()));
                }
            }
            // c on segment a-c' style query: b against the segment a-c (b is between them when collinear)
            let on = Line::new(ca, cc).intersects(&cb);
            if on != (ex == 0) {
                acc.viol("Line<i64> intersects Coord wrong on a near-collinear triple".into(), idx, || wit(on.to_string()));
            }
            let w = match LineString::new(vec![ca, cb, cc, ca]).winding_order() {
                Some(WindingOrder::CounterClockwise) => 1,
                Some(WindingOrder::Clockwise) => -1,
                None => 0,
            };
            if w != ex {
                acc.viol("winding_order<i64> wrong on a near-collinear triangle".into(), idx, || wit(w.to_string()));
            }
        }
        // i32, M = 2^13 (products < 2^29)
        {
            let m: i32 = 1 << 13;
            let o3 = ((o.0 >> 18) as i32, (o.1 >> 18) as i32);
            let (i, j, k, l) = (i as i32, j as i32, k as i32, l as i32);
            let (a, b, c) = (o3, (o3.0 + m + i, o3.1 + m + j), (o3.0 + 2 * m + k, o3.1 + 2 * m + l));
            let det = (b.0 - a.0) as i64 * (c.1 - a.1) as i64 - (b.1 - a.1) as i64 * (c.0 - a.0) as i64;
            let ex = det.signum() as i32;
            acc.evals += 1;
            let got = osign(<i32 as GeoNum>::Ker::orient2d(Coord { x: a.0, y: a.1 }, Coord { x: b.0, y: b.1 }, Coord { x: c.0, y: c.1 }));
            if got != ex {
                acc.viol("orient2d<i32> wrong on a near-collinear triple whose products fit i32".into(), idx, || json!({"a": format!("{:?}", a), "b": format!("{:?}", b), "c": format!("{:?}", c), "exact_determinant": det, "got": got}));
            }
        }
    });
    // the ends of the floating-point range: lattice configurations scaled (exactly) by 2^-600 and 2^600. Products of coordinate differences underflow /
    // overflow there; comparisons and exactly collinear configurations must still be answered exactly. (Non-collinear triples are a known finding: the
    // adaptive predicate is not underflow/overflow safe.)
    {
        let g3: Vec<(i64, i64)> = (0..3).flat_map(|x| (0..3).map(move |y| (x, y))).collect();
        let n3 = g3.len();
        run.stage("range-ends", n3 * n3 * n3 * 2, |idx, acc| {
            let (e, t) = (if idx % 2 == 0 { -600 } else { 600 }, idx / 2);
            let sc = 2f64.powi(e);
            let (a, b, c) = (g3[t / (n3 * n3)], g3[(t / n3) % n3], g3[t % n3]);
            let f = |p: (i64, i64)| Coord { x: p.0 as f64 * sc, y: p.1 as f64 * sc };
            let o = ((b.0 - a.0) * (c.1 - a.1) - (b.1 - a.1) * (c.0 - a.0)).signum() as i32;
            acc.class(format!("range-end 2^{} sign{}", e, o));
            acc.sample(idx, || json!({"a": format!("{:?}", a), "b": format!("{:?}", b), "c": format!("{:?}", c), "scale": format!("2^{}", e)}));
            let wit = |got: String| json!({"a": format!("{:?}", a), "b": format!("{:?}", b), "c": format!("{:?}", c), "scale": format!("2^{}", e), "got": got});
            acc.evals += 1;
            let got = osign(<f64 as GeoNum>::Ker::orient2d(f(a), f(b), f(c)));
            if got != o {
                if o != 0 && got == 0 {
                    acc.viol(format!("orient2d reports Collinear for a non-collinear triple at magnitude 2^{} (products of coordinate differences {})", e, if e < 0 { "underflow" } else { "overflow" }), idx, || wit(got.to_string()));
                } else {
                    acc.viol(format!("orient2d wrong at magnitude 2^{}", e), idx, || wit(got.to_string()));
                }
            }
            // exactly collinear configurations: c on segment a-b?
            if o == 0 && a != b {
                let on = c.0 >= a.0.min(b.0) && c.0 <= a.0.max(b.0) && c.1 >= a.1.min(b.1) && c.1 <= a.1.max(b.1);
                acc.evals += 3;
                let l = Line::new(f(a), f(b));
                if l.intersects(&f(c)) != on {
                    acc.viol(format!("Line intersects Coord wrong for exactly collinear points at magnitude 2^{}", e), idx, || wit((!on).to_string()));
                }
                // the collinear segment c - c+(b-a): disjoint from a-b unless it touches or overlaps
                let d = (c.0 + (b.0 - a.0), c.1 + (b.1 - a.1));
                let l2 = Line::new(f(c), f(d));
                let (lo1, hi1, lo2, hi2) = (a.min(b), a.max(b), c.min(d), c.max(d));
                let meet = !(hi1 < lo2 || hi2 < lo1);
                if l.intersects(&l2) != meet || l2.intersects(&l) != meet {
                    acc.viol(format!("Line intersects Line wrong for collinear segments at magnitude 2^{}", e), idx, || wit((!meet).to_string()));
                }
                // ring with the horizontal/vertical edge a-b: c on the edge's carrier line
                if (a.0 == b.0 || a.1 == b.1) && a != b {
                    let apex = if a.1 == b.1 { ((a.0 + b.0), a.1 + 5) } else { (a.0 + 5, (a.1 + b.1)) };
                    let ring = LineString::new(vec![f(a), f(b), Coord { x: apex.0 as f64 * sc, y: apex.1 as f64 * sc }, f(a)]);
                    let want = if on { 1 } else { 0 };
                    let got = pos3(coord_pos_relative_to_ring(f(c), &ring));
                    // off the edge but on its line the point is outside this triangle (apex is beyond the edge's extent only when...): decide exactly
                    let exact_in = crate::bigf::point_in_ring(&[(a.0 as f64, a.1 as f64), (b.0 as f64, b.1 as f64), (apex.0 as f64, apex.1 as f64)], (c.0 as f64, c.1 as f64));
                    let _ = want;
                    if got != exact_in {
                        acc.viol(format!("coord_pos_relative_to_ring wrong on the carrier line of an axis-parallel edge at magnitude 2^{}", e), idx, || wit(got.to_string()));
                    }
                }
            }
        });
    }
    // point-in-triangle for every vertex order: all non-degenerate lattice triangles of the 4x4 lattice (every ordered triple = all 6 orders) x every
    // query point of the lattice extended by one step, f64 and i64: contains / intersects / coordinate_position against exact orientation signs
    let g4: Vec<(i64, i64)> = (0..4).flat_map(|x| (0..4).map(move |y| (x, y))).collect();
    let q6: Vec<(i64, i64)> = (-1..5).flat_map(|x| (-1..5).map(move |y| (x, y))).collect();
    let (n4, nq) = (g4.len(), q6.len());
    run.stage("triangle-vertex-orders", n4 * n4 * n4 * nq, |idx, acc| {
        let (t, d) = (idx / nq, q6[idx % nq]);
        let (a, b, c) = (g4[t / (n4 * n4)], g4[(t / n4) % n4], g4[t % n4]);
        let o = |p: (i64, i64), q: (i64, i64), r: (i64, i64)| ((q.0 - p.0) * (r.1 - p.1) - (q.1 - p.1) * (r.0 - p.0)).signum();
        let s = o(a, b, c);
        if s == 0 {
            return;
        }
        let e = [o(a, b, d) * s, o(b, c, d) * s, o(c, a, d) * s];
        let ex_pos = if e.iter().any(|&x| x < 0) { 0 } else if e.iter().any(|&x| x == 0) { 1 } else { 2 };
        acc.class(format!("triangle-order pos{} zeros{} cw{}", ex_pos, e.iter().filter(|&&x| x == 0).count(), s < 0));
        let cf = |p: (i64, i64)| Coord { x: p.0 as f64, y: p.1 as f64 };
        let ci = |p: (i64, i64)| Coord { x: p.0, y: p.1 };
        let tf = Triangle(cf(a), cf(b), cf(c));
        let ti = Triangle(ci(a), ci(b), ci(c));
        let wit = |what: &str, got: String| json!({"triangle": format!("{:?} {:?} {:?}", a, b, c), "query": format!("{:?}", d), "what": what, "expected_position(0 out,1 boundary,2 in)": ex_pos, "got": got});
        macro_rules! chk {
            ($name:expr, $got:expr, $exp:expr) => {{
                acc.evals += 1;
                let (g, x) = ($got, $exp);
                if g != x {
                    acc.viol(format!("{} wrong for some vertex order of a lattice triangle", $name), idx, || wit($name, format!("{:?}", g)));
                }
            }};
        }
        chk!("Triangle<f64> intersects Coord", tf.intersects(&cf(d)), ex_pos != 0);
        chk!("Coord intersects Triangle<f64>", cf(d).intersects(&tf), ex_pos != 0);
        chk!("Triangle<f64> contains Coord", tf.contains(&cf(d)), ex_pos == 2);
        chk!("Triangle<f64>::coordinate_position", pos3(tf.coordinate_position(&cf(d))), ex_pos);
        chk!("Triangle<i64> intersects Coord", ti.intersects(&ci(d)), ex_pos != 0);
        chk!("Triangle<i64> contains Coord", ti.contains(&ci(d)), ex_pos == 2);
        chk!("Triangle<i64>::coordinate_position", pos3(ti.coordinate_position(&ci(d))), ex_pos);
        chk!("Triangle<f64> as Polygon intersects Coord", tf.to_polygon().intersects(&cf(d)), ex_pos != 0);
        // signed zeros: the same inputs with every zero coordinate written as -0.0 denote the same real numbers
        if idx % nq == 0 {
            let nz = |p: (i64, i64)| Coord { x: if p.0 == 0 { -0.0 } else { p.0 as f64 }, y: if p.1 == 0 { -0.0 } else { p.1 as f64 } };
            for (which, pts) in [("all", [nz(a), nz(b), nz(c)]), ("first", [nz(a), cf(b), cf(c)]), ("second", [cf(a), nz(b), cf(c)]), ("third", [cf(a), cf(b), nz(c)])] {
                let w = match LineString::new(vec![pts[0], pts[1], pts[2], pts[0]]).winding_order() {
                    Some(WindingOrder::CounterClockwise) => 1,
                    Some(WindingOrder::Clockwise) => -1,
                    None => 0,
                };
                chk!("winding_order with zero coordinates written as -0.0", (which, w), (which, s as i32));
                chk!("orient2d with zero coordinates written as -0.0", (which, osign(<f64 as GeoNum>::Ker::orient2d(pts[0], pts[1], pts[2]))), (which, s as i32));
            }
        }
        chk!("Triangle<f64> as Polygon coordinate_position", pos3(tf.to_polygon().coordinate_position(&cf(d))), ex_pos);
    });
    let nw = run.acc.counters.get("naive_formula_wrong").cloned().unwrap_or(0);
    run.distinct_override = Some(nw);
    if nw == 0 && run.ctx.replay.is_none() {
        panic!("vacuous: the naive determinant is never wrong on the enumerated windows");
    }
    run.finish()
}

//! C19 Coordinate traversal, mapping and bounding boxes are mutually consistent.
use crate::engine::*;
use geo::{
    BoundingRect, Coord, CoordsIter, Extremes, Geometry, GeometryCollection, Line, LineString, LinesIter, MapCoords, MapCoordsInPlace, MultiLineString, MultiPoint, MultiPolygon, Point, Polygon, Rect, Triangle,
};
use serde_json::json;
use std::cell::Cell;

/// shape description (type tree); coordinates are assigned from a counter so that every coordinate is distinct
#[derive(Clone, Debug)]
pub enum Sh {
    Pt,
    Ln,
    Ls(usize),
    Pg(usize, Vec<usize>), // exterior vertex count (0, 3 or 4), hole vertex counts
    MPt(usize),
    MLs(Vec<usize>),
    MPg(Vec<(usize, Vec<usize>)>),
    Rc,
    Tr(bool), // clockwise as written?
    Gc(Vec<Sh>),
}
type C = Coord<f64>;
fn cc(x: f64, y: f64) -> C {
    Coord { x, y }
}

/// reference traversal produced alongside the geometry
#[derive(Default, Clone, Debug)]
pub struct Ref {
    coords: Vec<C>,
    exterior: Vec<C>,
    lines: Vec<(C, C)>,
    has_lines: bool,
    has_triangle: bool,
    has_rect: bool,
}

struct Gen {
    n: usize,
}
impl Gen {
    fn next(&mut self) -> C {
        // distinct, not monotone in either axis
        let i = self.n as f64;
        self.n += 1;
        if self.n % 5 == 0 {
            // every fifth free coordinate has components of very different magnitude and sign (still pairwise distinct): traversals must carry the
            // stored values themselves
            let k = self.n as f64;
            return cc(if self.n % 10 == 0 { -1e16 - k * 4.0 } else { 1e-7 * (k + 1.0) }, if self.n % 10 == 0 { 3e-9 * (k + 1.0) } else { 7e15 + k * 2.0 });
        }
        cc(1000.0 + ((self.n * 37) % 101) as f64 + i / 1024.0, 2000.0 + ((self.n * 53) % 89) as f64 - i / 512.0)
    }
    /// a ring of k free vertices inside the box [bx, bx+w] x [by, by+w], explicitly closed
    fn ring(&mut self, k: usize, bx: f64, by: f64, w: f64) -> Vec<C> {
        if k == 0 {
            return vec![];
        }
        if k == 100 {
            // a ring of a single coordinate (counts as closed: Polygon::new leaves it alone)
            self.n += 1;
            return vec![cc(bx + 0.25, by - 0.5)];
        }
        let corners = [(0.0, 0.0), (1.0, 0.0), (1.0, 1.0), (0.0, 1.0)];
        let jitter = (self.n % 7) as f64 / 64.0;
        self.n += 1;
        let mut v: Vec<C> = (0..k).map(|i| cc(bx + corners[i % 4].0 * w + jitter * (i as f64 + 1.0) / 8.0, by + corners[i % 4].1 * w - jitter / 4.0)).collect();
        v.push(v[0]);
        v
    }
}

fn build(s: &Sh, g: &mut Gen, r: &mut Ref) -> Geometry<f64> {
    let mut ring_lines = |v: &Vec<C>, r: &mut Ref| {
        for w in v.windows(2) {
            r.lines.push((w[0], w[1]));
        }
    };
    match s {
        Sh::Pt => {
            let c = g.next();
            r.coords.push(c);
            r.exterior.push(c);
            Geometry::Point(Point(c))
        }
        Sh::Ln => {
            let (a, b) = (g.next(), g.next());
            r.coords.extend([a, b]);
            r.exterior.extend([a, b]);
            r.lines.push((a, b));
            r.has_lines = true;
            Geometry::Line(Line::new(a, b))
        }
        Sh::Ls(n) => {
            let v: Vec<C> = (0..*n).map(|_| g.next()).collect();
            r.coords.extend(&v);
            r.exterior.extend(&v);
            ring_lines(&v, r);
            r.has_lines = true;
            Geometry::LineString(LineString::new(v))
        }
        Sh::MPt(k) => {
            let v: Vec<C> = (0..*k).map(|_| g.next()).collect();
            r.coords.extend(&v);
            r.exterior.extend(&v);
            Geometry::MultiPoint(MultiPoint(v.into_iter().map(Point).collect()))
        }
        Sh::MLs(ns) => {
            let mut ls = vec![];
            for n in ns {
                let v: Vec<C> = (0..*n).map(|_| g.next()).collect();
                r.coords.extend(&v);
                r.exterior.extend(&v);
                ring_lines(&v, r);
                ls.push(LineString::new(v));
            }
            r.has_lines = true;
            Geometry::MultiLineString(MultiLineString(ls))
        }
        Sh::Pg(e, hs) => Geometry::Polygon(build_poly(*e, hs, g, r)),
        Sh::MPg(ps) => Geometry::MultiPolygon(MultiPolygon(ps.iter().map(|(e, hs)| build_poly(*e, hs, g, r)).collect())),
        Sh::Rc => {
            let a0 = g.next();
            // every other Rect gets corners of very different magnitude and sign (min + (max - min) != max in floating point): the traversal must
            // show the stored corners themselves, not values recomputed from width and height
            let k = g.n as f64; // distinct per generated coordinate
            let (a, b) = if g.n % 2 == 1 { (cc(-73.98 - k * 0.01, -0.1 - k * 0.001), cc(0.1 + k * 0.013, 0.3 + k * 0.007)) } else { (a0, cc(a0.x + 3.5, a0.y + 1.25)) };
            let rect = Rect::new(a, b);
            // documented traversal: (max.x,min.y),(max.x,max.y),(min.x,max.y),(min.x,min.y)
            let v = vec![cc(b.x, a.y), cc(b.x, b.y), cc(a.x, b.y), cc(a.x, a.y)];
            r.coords.extend(&v);
            r.exterior.extend(&v);
            for i in 0..4 {
                r.lines.push((v[i], v[(i + 1) % 4]));
            }
            r.has_lines = true;
            r.has_rect = true;
            Geometry::Rect(rect)
        }
        Sh::Tr(cw) => {
            let a = g.next();
            let (b, c3) = (cc(a.x + 2.0, a.y + 0.5), cc(a.x + 0.5, a.y + 3.0));
            let v = if *cw { vec![a, c3, b] } else { vec![a, b, c3] };
            r.coords.extend(&v);
            r.exterior.extend(&v);
            for i in 0..3 {
                r.lines.push((v[i], v[(i + 1) % 3]));
            }
            r.has_lines = true;
            r.has_triangle = true;
            Geometry::Triangle(Triangle(v[0], v[1], v[2]))
        }
        Sh::Gc(ms) => {
            let mut out = vec![];
            for m in ms {
                out.push(build(m, g, r));
            }
            Geometry::GeometryCollection(GeometryCollection(out))
        }
    }
}
fn build_poly(e: usize, hs: &[usize], g: &mut Gen, r: &mut Ref) -> Polygon<f64> {
    let base = g.next();
    let ext = g.ring(e, base.x, base.y, 64.0);
    r.coords.extend(&ext);
    r.exterior.extend(&ext);
    for w in ext.windows(2) {
        r.lines.push((w[0], w[1]));
    }
    let mut holes = vec![];
    for (i, h) in hs.iter().enumerate() {
        // holes inside the shell's box (Polygon::bounding_rect looks at the exterior only)
        let hv = if e == 0 { vec![] } else { g.ring(*h, base.x + 8.0 + 12.0 * i as f64, base.y + 8.0, 8.0) };
        r.coords.extend(&hv);
        for w in hv.windows(2) {
            r.lines.push((w[0], w[1]));
        }
        holes.push(LineString::new(hv));
    }
    r.has_lines = true;
    Polygon::new(LineString::new(ext), holes)
}

fn lines_of(g: &Geometry<f64>) -> Option<Vec<(C, C)>> {
    let f = |l: Line<f64>| (l.start, l.end);
    Some(match g {
        Geometry::Line(x) => x.lines_iter().map(f).collect(),
        Geometry::LineString(x) => x.lines_iter().map(f).collect(),
        Geometry::MultiLineString(x) => x.lines_iter().map(f).collect(),
        Geometry::Polygon(x) => x.lines_iter().map(f).collect(),
        Geometry::MultiPolygon(x) => x.lines_iter().map(f).collect(),
        Geometry::Rect(x) => x.lines_iter().map(f).collect(),
        Geometry::Triangle(x) => x.lines_iter().map(f).collect(),
        _ => return None,
    })
}

const NF: usize = 6;
fn fmap(k: usize, c: C) -> C {
    match k {
        0 => c,
        1 => cc(c.y, c.x),              // swap (orientation reversing)
        2 => cc(c.x + 1.5, c.y - 2.25), // translate
        3 => cc(5.0, 5.0),              // constant
        4 => cc(-c.x, c.y),             // reflection (orientation reversing)
        _ => cc(((c.x * 37.0) % 101.0).floor() + c.y / 4096.0, c.y), // non-monotone
    }
}
fn reversing(k: usize) -> bool {
    k == 1 || k == 4
}
/// the traversal geo's Triangle::new would give (re-ordered to CCW, non-robust cross product)
fn tri_norm(v: &[C]) -> Vec<C> {
    let cr = (v[1].x - v[0].x) * (v[2].y - v[0].y) - (v[1].y - v[0].y) * (v[2].x - v[0].x);
    if cr < 0.0 {
        vec![v[2], v[1], v[0]]
    } else {
        v.to_vec()
    }
}

fn leaves(quick: bool) -> Vec<Sh> {
    let mut v = vec![
        Sh::Pt,
        Sh::Ln,
        Sh::Ls(0),
        Sh::Ls(1),
        Sh::Ls(3),
        Sh::Pg(0, vec![]),
        Sh::Pg(3, vec![]),
        Sh::Pg(100, vec![]),
        Sh::Pg(1, vec![]),
        Sh::Pg(4, vec![3]),
        Sh::Pg(4, vec![3, 4]),
        Sh::MPt(0),
        Sh::MPt(2),
        Sh::MLs(vec![]),
        Sh::MLs(vec![0, 3]),
        Sh::MLs(vec![2, 3]),
        Sh::MPg(vec![]),
        Sh::MPg(vec![(4, vec![3]), (3, vec![])]),
        Sh::MPg(vec![(0, vec![]), (4, vec![])]),
        Sh::Rc,
        Sh::Tr(false),
        Sh::Tr(true),
    ];
    if !quick {
        v.extend([Sh::Ls(2), Sh::Pg(4, vec![3, 3, 3]), Sh::MPt(3), Sh::MLs(vec![1]), Sh::MPg(vec![(0, vec![]), (4, vec![])]), Sh::MPg(vec![(3, vec![]), (3, vec![]), (4, vec![4])])]);
    }
    v
}

pub fn shapes(quick: bool) -> Vec<Sh> {
    let lv = leaves(quick);
    let n = lv.len();
    let mut v: Vec<Sh> = lv.clone();
    v.push(Sh::Gc(vec![]));
    for a in &lv {
        v.push(Sh::Gc(vec![a.clone()]));
        v.push(Sh::Gc(vec![Sh::Gc(vec![a.clone()])]));
        for b in &lv {
            v.push(Sh::Gc(vec![a.clone(), b.clone()]));
            v.push(Sh::Gc(vec![Sh::Gc(vec![a.clone()]), b.clone(), Sh::Gc(vec![])]));
        }
    }
    // triples (all in thorough, a third in quick), flat and nested
    for i in 0..n {
        for j in 0..n {
            for k in 0..n {
                v.push(Sh::Gc(vec![lv[i].clone(), lv[j].clone(), lv[k].clone()]));
                if (i + j + k) % 2 == 0 {
                    v.push(Sh::Gc(vec![lv[i].clone(), Sh::Gc(vec![lv[j].clone(), lv[k].clone()])]));
                }
            }
        }
    }
    v
}

pub fn run(mut run: Run) -> i32 {
    let quick = run.ctx.quick();
    run.rule = "every shape (type tree) over 19 (thorough 25) leaf shapes of the 10 types incl. empty members and polygons with 0-3 holes, collections of up to 3 members nested to depth 2, filled with pairwise distinct coordinates (holes inside the shell's box), \
        x 6 coordinate functions (identity, swap, translate, constant, reflection, non-monotone) x fallible functions failing at every position: coords_count / coords_iter / size_hint, exterior_coords_iter, lines_iter, map_coords, map_coords_in_place, \
        try_map_coords (Ok and the error of the first failing position), bounding_rect, extremes, against a recursive reference traversal built with the geometry; distinct = (shape signature, function)"
        .into();
    run.assumptions = vec![
        "Rect is exempt from the map_coords traversal clause (it re-normalises), as the property says".into(),
        "Polygon::bounding_rect looks at the exterior only, so holes are generated inside the shell's box".into(),
    ];
    let sh = shapes(quick);
    let n = sh.len();
    run.extra.insert("shapes".into(), json!(n));
    run.stage("shapes", n, |idx, acc| {
        let s = &sh[idx];
        let mut r = Ref::default();
        let g = build(s, &mut Gen { n: 0 }, &mut r);
        let sig = format!("{:?}", s).replace(char::is_numeric, "").replace(['[', ']', ',', ' ', '(', ')'], "").chars().take(60).collect::<String>();
        acc.sample(idx, || json!({"shape": format!("{:?}", s), "geometry": format!("{:?}", g), "coords": r.coords.len()}));
        let w = |d: String| json!({"shape": format!("{:?}", s), "geometry": format!("{:?}", g), "detail": d});
        acc.evals += 5;
        // traversal
        let got: Vec<C> = g.coords_iter().collect();
        if got != r.coords {
            acc.viol("coords_iter differs from the reference traversal".into(), idx, || w(format!("{:?}", got)));
            return;
        }
        if g.coords_count() != got.len() {
            acc.viol("coords_count != coords_iter().count()".into(), idx, || w(format!("{} vs {}", g.coords_count(), got.len())));
        }
        let sh_ = g.coords_iter().size_hint();
        if sh_.0 > got.len() || sh_.1.map_or(false, |u| u < got.len()) {
            acc.viol("coords_iter size_hint does not bracket the count".into(), idx, || w(format!("{:?} vs {}", sh_, got.len())));
        }
        let ext: Vec<C> = g.exterior_coords_iter().collect();
        if ext != r.exterior {
            acc.viol("exterior_coords_iter differs from the exterior sub-sequence".into(), idx, || w(format!("{:?}", ext)));
        }
        if let Some(ls) = lines_of(&g) {
            if ls != r.lines {
                acc.viol("lines_iter differs from the consecutive coordinate pairs".into(), idx, || w(format!("{:?}", ls)));
            }
        }
        // bounding rect
        let br = g.bounding_rect();
        let want = if r.coords.is_empty() {
            None
        } else {
            let (mut x0, mut y0, mut x1, mut y1) = (f64::INFINITY, f64::INFINITY, f64::NEG_INFINITY, f64::NEG_INFINITY);
            for c in &r.coords {
                x0 = x0.min(c.x);
                y0 = y0.min(c.y);
                x1 = x1.max(c.x);
                y1 = y1.max(c.y);
            }
            Some(Rect::new(cc(x0, y0), cc(x1, y1)))
        };
        if br != want {
            acc.viol("bounding_rect is not the min/max of the traversal".into(), idx, || w(format!("got {:?} want {:?}", br, want)));
        }
        // extremes
        match (g.extremes(), r.exterior.is_empty()) {
            (None, true) => {}
            (Some(o), false) => {
                let e = &r.exterior;
                let ok = |ex: &geo::extremes::Extreme<f64>, f: &dyn Fn(&C) -> f64, max: bool| {
                    ex.index < e.len() && e[ex.index] == ex.coord && e.iter().all(|c| if max { f(c) <= f(&ex.coord) } else { f(c) >= f(&ex.coord) })
                };
                if !(ok(&o.x_min, &|c| c.x, false) && ok(&o.x_max, &|c| c.x, true) && ok(&o.y_min, &|c| c.y, false) && ok(&o.y_max, &|c| c.y, true)) {
                    acc.viol("extremes do not attain the bounds at the indices they name".into(), idx, || w(format!("{:?}", o)));
                }
            }
            (o, _) => acc.viol("extremes None/Some mismatch".into(), idx, || w(format!("{:?}", o))),
        }
        // mapping
        for k in 0..NF {
            acc.evals += 3;
            acc.class(format!("{} f{}", sig, k));
            let m = g.map_coords(|c| fmap(k, c));
            let mt: Vec<C> = m.coords_iter().collect();
            let want: Vec<C> = r.coords.iter().map(|&c| fmap(k, c)).collect();
            let same_shape = std::mem::discriminant(&m) == std::mem::discriminant(&g) && m.coords_count() == g.coords_count();
            if !r.has_rect {
                if mt != want || !same_shape {
                    // is it only the documented CCW re-ordering of Triangle::new?
                    let mut r2 = Ref::default();
                    let _ = build(s, &mut Gen { n: 0 }, &mut r2);
                    let tri_only = r.has_triangle && same_shape && {
                        // re-normalise every triangle leaf of the expected traversal
                        fn norm(s: &Sh, src: &[C], pos: &mut usize, out: &mut Vec<C>, k: usize) {
                            match s {
                                Sh::Tr(_) => {
                                    let v: Vec<C> = src[*pos..*pos + 3].iter().map(|&c| fmap(k, c)).collect();
                                    out.extend(tri_norm(&v));
                                    *pos += 3;
                                }
                                Sh::Gc(ms) => ms.iter().for_each(|m| norm(m, src, pos, out, k)),
                                other => {
                                    let mut rr = Ref::default();
                                    let _ = build(other, &mut Gen { n: 0 }, &mut rr);
                                    let cnt = rr.coords.len();
                                    out.extend(src[*pos..*pos + cnt].iter().map(|&c| fmap(k, c)));
                                    *pos += cnt;
                                }
                            }
                        }
                        let mut out = vec![];
                        let mut pos = 0;
                        norm(s, &r.coords, &mut pos, &mut out, k);
                        out == mt
                    };
                    let _ = reversing(k);
                    if tri_only {
                        acc.viol("map_coords re-orders a Triangle to counter-clockwise (clockwise input, or an orientation-reversing function): traversal is not f of the original traversal".into(), idx, || w(format!("f{}: {:?}", k, mt)));
                    } else {
                        acc.viol(format!("map_coords traversal is not f applied to the original traversal (f{})", k), idx, || w(format!("{:?}", mt)));
                    }
                }
            }
            // in place and Ok-wrapped agree with map_coords
            let mut ip = g.clone();
            ip.map_coords_in_place(|c| fmap(k, c));
            if ip != m {
                acc.viol(format!("map_coords_in_place differs from map_coords (f{})", k), idx, || w(format!("{:?}", ip)));
            }
            match g.try_map_coords(|c| Ok::<_, usize>(fmap(k, c))) {
                Ok(t) if t == m => {}
                other => acc.viol(format!("try_map_coords(Ok) differs from map_coords (f{})", k), idx, || w(format!("{:?}", other))),
            }
        }
        // the fallible form shows the coordinates to the function in traversal order (that order decides which error surfaces when several coordinates fail)
        if !r.has_rect {
            let seen = std::cell::RefCell::new(Vec::<C>::new());
            let _ = g.try_map_coords(|c| {
                seen.borrow_mut().push(c);
                Ok::<_, usize>(fmap(2, c))
            });
            acc.evals += 1;
            if *seen.borrow() != r.coords {
                acc.viol("try_map_coords does not show the coordinates to the function in traversal order".into(), idx, || w(format!("order seen: {:?}", seen.borrow())));
            }
        }
        // fallible function failing at every position: the error of the first failing call is returned
        // (a Rect stores two corners and shows only those to the function, so positions are not comparable: exempt like its traversal)
        let total = if r.has_rect { 0 } else { r.coords.len() };
        for j in 0..total.min(12) {
            acc.evals += 2;
            let calls = Cell::new(0usize);
            let res = g.try_map_coords(|c| {
                let i = calls.get();
                calls.set(i + 1);
                if i >= j {
                    Err(i)
                } else {
                    Ok(fmap(2, c))
                }
            });
            if res != Err(j) {
                acc.viol("try_map_coords does not return the error of the first failing position".into(), idx, || w(format!("fail at {}: {:?}", j, res)));
                break;
            }
            // try_map_coords_in_place cannot be instantiated on Geometry / GeometryCollection (the impl passes `&func` down the
            // recursion, so the closure type grows without bound: a compile-time limitation, not a run-time behaviour); it is
            // exercised on the concrete non-recursive types
            macro_rules! in_place {
                ($x:expr) => {{
                    let calls = Cell::new(0usize);
                    let mut ip = $x.clone();
                    ip.try_map_coords_in_place(|c| {
                        let i = calls.get();
                        calls.set(i + 1);
                        if i >= j {
                            Err(i)
                        } else {
                            Ok(fmap(2, c))
                        }
                    })
                }};
            }
            let res: Option<Result<(), usize>> = match &g {
                Geometry::Point(x) => Some(in_place!(x)),
                Geometry::Line(x) => Some(in_place!(x)),
                Geometry::LineString(x) => Some(in_place!(x)),
                Geometry::Polygon(x) => Some(in_place!(x)),
                Geometry::MultiPoint(x) => Some(in_place!(x)),
                Geometry::MultiLineString(x) => Some(in_place!(x)),
                Geometry::MultiPolygon(x) => Some(in_place!(x)),
                Geometry::Rect(x) => Some(in_place!(x)),
                Geometry::Triangle(x) => Some(in_place!(x)),
                Geometry::GeometryCollection(_) => None,
            };
            if let Some(res) = res {
                if res != Err(j) {
                    acc.viol("try_map_coords_in_place does not return the error of the first failing position".into(), idx, || w(format!("fail at {}: {:?}", j, res)));
                    break;
                }
            }
        }
    });
    run.finish()
}

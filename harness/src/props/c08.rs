//! C08 Convex hull is the smallest convex polygon containing the input; minimum rotated rect.
use crate::engine::*;
use crate::enumr::*;
use crate::exact::*;
use geo::algorithm::convex_hull::{graham_hull, quick_hull};
use geo::{BoundingRect, ConvexHull, Coord, LineString, MinimumRotatedRect, MultiPoint, Point, Polygon, Area};
use serde_json::json;

fn check_ring(name: &str, ring: &[(i64, i64)], closed: bool, pts: &[IP], exact: &[IP]) -> Option<String> {
    // ring given closed (first==last) when `closed`
    if closed && (ring.len() < 4 || ring.first() != ring.last()) {
        return Some(format!("{}: not a closed ring of >=4 coordinates", name));
    }
    let v: Vec<IP> = if closed { ring[..ring.len() - 1].to_vec() } else { ring.to_vec() };
    let n = v.len();
    let mut sorted = v.clone();
    sorted.sort();
    sorted.dedup();
    if sorted.len() != n {
        return Some(format!("{}: repeated hull vertex", name));
    }
    for i in 0..n {
        let o = orient_i(v[i], v[(i + 1) % n], v[(i + 2) % n]);
        if o == 0 {
            return Some(format!("{}: hull vertex on the segment between its neighbours (collinear)", name));
        }
        if o < 0 {
            return Some(format!("{}: not counter-clockwise / not convex", name));
        }
    }
    let mut e = exact.to_vec();
    e.sort();
    if sorted != e {
        return Some(format!("{}: vertex set differs from the exact hull", name));
    }
    for &p in pts {
        for i in 0..n {
            if orient_i(v[i], v[(i + 1) % n], p) < 0 {
                return Some(format!("{}: input point outside", name));
            }
        }
    }
    None
}
fn ring_of_f(l: &LineString<f64>) -> Vec<(i64, i64)> {
    l.0.iter().map(|c| (c.x as i64, c.y as i64)).collect()
}
fn ring_of_i(l: &LineString<i64>) -> Vec<(i64, i64)> {
    l.0.iter().map(|c| (c.x, c.y)).collect()
}

fn check_seq(acc: &mut Acc, idx: usize, pts: &[IP], full: bool) {
    let exact = hull(pts);
    let nontrivial = exact.len() >= 3;
    let cf: Vec<Coord<f64>> = pts.iter().map(|&p| Coord { x: p.0 as f64, y: p.1 as f64 }).collect();
    let ci: Vec<Coord<i64>> = pts.iter().map(|&p| Coord { x: p.0, y: p.1 }).collect();
    acc.class(format!("n{} hull{} distinct{}", pts.len(), exact.len(), { let mut s = pts.to_vec(); s.sort(); s.dedup(); s.len() }));
    acc.sample(idx, || json!({"points": format!("{:?}", pts), "exact_hull": format!("{:?}", exact)}));
    let mut results: Vec<(&str, Result<Vec<(i64, i64)>, String>)> = vec![
        ("quick_hull<f64>", guard(|| ring_of_f(&quick_hull(&mut cf.clone())))),
        ("graham_hull<f64>", guard(|| ring_of_f(&graham_hull(&mut cf.clone(), false)))),
        ("MultiPoint::convex_hull<f64>", guard(|| ring_of_f(MultiPoint(cf.iter().map(|&c| Point(c)).collect()).convex_hull().exterior()))),
        ("quick_hull<i64>", guard(|| ring_of_i(&quick_hull(&mut ci.clone())))),
        ("graham_hull<i64>", guard(|| ring_of_i(&graham_hull(&mut ci.clone(), false)))),
    ];
    if full {
        results.push(("LineString::convex_hull<f64>", guard(|| ring_of_f(LineString::new(cf.clone()).convex_hull().exterior()))));
        results.push(("Polygon::convex_hull<f64>", guard(|| ring_of_f(Polygon::new(LineString::new(cf.clone()), vec![]).convex_hull().exterior()))));
        results.push(("MultiPoint::convex_hull<i64>", guard(|| ring_of_i(MultiPoint(ci.iter().map(|&c| Point(c)).collect()).convex_hull().exterior()))));
        // every other geometry type holding the same coordinates ("convex_hull of any geometry"), and the f32 / i32 instantiations
        {
            use geo::{Geometry, GeometryCollection, Line, MultiLineString, MultiPolygon, Rect, Triangle};
            let n = cf.len();
            let mls = MultiLineString(vec![LineString::new(cf[..n / 2].to_vec()), LineString::new(cf[n / 2..].to_vec())]);
            results.push(("MultiLineString::convex_hull<f64>", guard(|| ring_of_f(mls.convex_hull().exterior()))));
            let mpg = MultiPolygon(vec![Polygon::new(LineString::new(cf[..n / 2].to_vec()), vec![]), Polygon::new(LineString::new(cf[n / 2..].to_vec()), vec![LineString::new(cf[..1].to_vec())])]);
            results.push(("MultiPolygon::convex_hull<f64>", guard(|| ring_of_f(mpg.convex_hull().exterior()))));
            let mut members: Vec<Geometry<f64>> = vec![];
            let mut i = 0;
            while i < n {
                if i + 3 <= n && i % 2 == 0 {
                    members.push(Geometry::Triangle(Triangle(cf[i], cf[i + 1], cf[i + 2])));
                    i += 3;
                } else if i + 2 <= n {
                    members.push(Geometry::Line(Line::new(cf[i], cf[i + 1])));
                    i += 2;
                } else {
                    members.push(Geometry::Point(Point(cf[i])));
                    i += 1;
                }
            }
            let gc = GeometryCollection(vec![Geometry::GeometryCollection(GeometryCollection(members.clone())), Geometry::MultiPoint(MultiPoint(vec![Point(cf[0])]))]);
            results.push(("GeometryCollection::convex_hull<f64>", guard(|| ring_of_f(gc.convex_hull().exterior()))));
            results.push(("Geometry::convex_hull<f64>", guard(|| ring_of_f(Geometry::GeometryCollection(GeometryCollection(members.clone())).convex_hull().exterior()))));
            if n == 3 {
                results.push(("Triangle::convex_hull<f64>", guard(|| ring_of_f(Triangle(cf[0], cf[1], cf[2]).convex_hull().exterior()))));
            }
            let c32: Vec<Coord<f32>> = pts.iter().map(|&p| Coord { x: p.0 as f32, y: p.1 as f32 }).collect();
            if pts.iter().all(|p| p.0.abs() < (1 << 20) && p.1.abs() < (1 << 20)) {
                results.push(("quick_hull<f32>", guard(|| quick_hull(&mut c32.clone()).0.iter().map(|c| (c.x as i64, c.y as i64)).collect())));
                results.push(("graham_hull<f32>", guard(|| graham_hull(&mut c32.clone(), false).0.iter().map(|c| (c.x as i64, c.y as i64)).collect())));
                let c_i32: Vec<Coord<i32>> = pts.iter().map(|&p| Coord { x: p.0 as i32, y: p.1 as i32 }).collect();
                results.push(("quick_hull<i32>", guard(|| quick_hull(&mut c_i32.clone()).0.iter().map(|c| (c.x as i64, c.y as i64)).collect())));
            }
            // far from the origin (integer offsets that keep every coordinate exact: f32 below 2^24, f64 below 2^53): products round, the hull must not change
            {
                let (ox, oy): (i64, i64) = (500000, 4650000);
                let sh: Vec<IP> = pts.iter().map(|p| (p.0 + ox, p.1 + oy)).collect();
                let exact_sh: Vec<IP> = exact.iter().map(|p| (p.0 + ox, p.1 + oy)).collect();
                if sh.iter().all(|p| p.0.abs() < (1 << 24) && p.1.abs() < (1 << 24)) {
                    let c32o: Vec<Coord<f32>> = sh.iter().map(|&p| Coord { x: p.0 as f32, y: p.1 as f32 }).collect();
                    for (name, r) in [
                        ("quick_hull<f32> at offset (5e5, 4.65e6)", guard(|| quick_hull(&mut c32o.clone()).0.iter().map(|c| (c.x as i64, c.y as i64)).collect::<Vec<IP>>())),
                        ("graham_hull<f32> at offset (5e5, 4.65e6)", guard(|| graham_hull(&mut c32o.clone(), false).0.iter().map(|c| (c.x as i64, c.y as i64)).collect::<Vec<IP>>())),
                    ] {
                        acc.evals += 1;
                        match r {
                            Err(p) => acc.viol(format!("{} panic", name), idx, || json!({"points": format!("{:?}", sh), "panic": p})),
                            Ok(ring) => {
                                if nontrivial {
                                    if let Some(msg) = check_ring(name, &ring, true, &sh, &exact_sh) {
                                        acc.viol(msg, idx, || json!({"points": format!("{:?}", sh), "got": format!("{:?}", ring), "exact_hull": format!("{:?}", exact_sh)}));
                                    }
                                }
                            }
                        }
                    }
                }
                let (ox, oy): (i64, i64) = (1 << 50, -(1 << 49));
                let sh: Vec<IP> = pts.iter().map(|p| (p.0 + ox, p.1 + oy)).collect();
                let exact_sh: Vec<IP> = exact.iter().map(|p| (p.0 + ox, p.1 + oy)).collect();
                if pts.iter().all(|p| p.0.abs() < 1000 && p.1.abs() < 1000) {
                    let c64o: Vec<Coord<f64>> = sh.iter().map(|&p| Coord { x: p.0 as f64, y: p.1 as f64 }).collect();
                    acc.evals += 1;
                    match guard(|| quick_hull(&mut c64o.clone()).0.iter().map(|c| (c.x as i64, c.y as i64)).collect::<Vec<IP>>()) {
                        Err(p) => acc.viol("quick_hull<f64> at offset 2^50 panic".into(), idx, || json!({"points": format!("{:?}", sh), "panic": p})),
                        Ok(ring) => {
                            if nontrivial {
                                if let Some(msg) = check_ring("quick_hull<f64> at offset 2^50", &ring, true, &sh, &exact_sh) {
                                    acc.viol(msg, idx, || json!({"points": format!("{:?}", sh), "got": format!("{:?}", ring), "exact_hull": format!("{:?}", exact_sh)}));
                                }
                            }
                        }
                    }
                }
                // zero coordinates written as -0.0 (every one / every other one): same points, same hull
                for pattern in 0..2usize {
                    let mut k = 0usize;
                    let mut nz = |v: f64| -> f64 { if v == 0.0 { k += 1; if pattern == 0 || k % 2 == 0 { -0.0 } else { 0.0 } } else { v } };
                    let cz: Vec<Coord<f64>> = cf.iter().map(|c| Coord { x: nz(c.x), y: nz(c.y) }).collect();
                    for (name, r) in [("quick_hull<f64> with -0.0 coordinates", guard(|| ring_of_f(&quick_hull(&mut cz.clone())))), ("graham_hull<f64> with -0.0 coordinates", guard(|| ring_of_f(&graham_hull(&mut cz.clone(), false))))] {
                        acc.evals += 1;
                        match r {
                            Err(p) => acc.viol(format!("{} panic", name), idx, || json!({"points": format!("{:?}", cz), "panic": p})),
                            Ok(ring) => {
                                if nontrivial {
                                    if let Some(msg) = check_ring(name, &ring, true, pts, &exact) {
                                        acc.viol(msg, idx, || json!({"points": format!("{:?}", cz), "got": format!("{:?}", ring), "exact_hull": format!("{:?}", exact)}));
                                    }
                                }
                            }
                        }
                    }
                }
            }
            // a Rect's hull is the Rect
            if n >= 2 && cf[0].x != cf[1].x && cf[0].y != cf[1].y {
                let r = Rect::new(cf[0], cf[1]);
                let want = hull(&[(r.min().x as i64, r.min().y as i64), (r.max().x as i64, r.min().y as i64), (r.max().x as i64, r.max().y as i64), (r.min().x as i64, r.max().y as i64)]);
                acc.evals += 1;
                match guard(|| ring_of_f(r.convex_hull().exterior())) {
                    Ok(ring) => {
                        if let Some(msg) = check_ring("Rect::convex_hull<f64>", &ring, true, &want, &want) {
                            acc.viol(msg, idx, || json!({"rect": format!("{:?}", r), "got": format!("{:?}", ring)}));
                        }
                    }
                    Err(p) => acc.viol("Rect::convex_hull panic".into(), idx, || json!({"rect": format!("{:?}", r), "panic": p})),
                }
            }
        }
    }
    for (name, r) in results {
        acc.evals += 1;
        match r {
            Err(p) => acc.viol(format!("{} panic", name), idx, || json!({"points": format!("{:?}", pts), "panic": p})),
            Ok(ring) => {
                if nontrivial {
                    if let Some(msg) = check_ring(name, &ring, true, pts, &exact) {
                        acc.viol(msg, idx, || json!({"points": format!("{:?}", pts), "got": format!("{:?}", ring), "exact_hull": format!("{:?}", exact)}));
                    }
                } else {
                    acc.count("degenerate inputs (no panic required only)", 1);
                }
            }
        }
    }
    // minimum rotated rect, at three exact power-of-two scales (the clauses are scale free: nothing may depend on an absolute size)
    if nontrivial {
        for sc in [1.0f64, 1.0 / 1073741824.0, 1048576.0] {
            let cs: Vec<Coord<f64>> = cf.iter().map(|c| Coord { x: c.x * sc, y: c.y * sc }).collect();
            let mp = MultiPoint(cs.iter().map(|&c| Point(c)).collect::<Vec<_>>());
            acc.evals += 1;
            match guard(|| mp.minimum_rotated_rect()) {
                Err(p) => acc.viol("minimum_rotated_rect panic".into(), idx, || json!({"points": format!("{:?}", pts), "scale": sc, "panic": p})),
                Ok(None) => acc.viol("minimum_rotated_rect None for non-degenerate input".into(), idx, || json!({"points": format!("{:?}", pts), "scale": sc})),
                Ok(Some(r)) => {
                    let br = mp.bounding_rect().unwrap();
                    let ext = br.width().max(br.height());
                    let ring = &r.exterior().0;
                    let a = r.unsigned_area();
                    let sgn = if r.signed_area() >= 0.0 { 1.0 } else { -1.0 };
                    let mut worst: f64 = 0.0;
                    for c in &cs {
                        for w in ring.windows(2) {
                            let cr = (w[1].x - w[0].x) * (c.y - w[0].y) - (w[1].y - w[0].y) * (c.x - w[0].x);
                            let len = ((w[1].x - w[0].x).powi(2) + (w[1].y - w[0].y).powi(2)).sqrt().max(1e-300);
                            worst = worst.max(-sgn * cr / len);
                        }
                    }
                    acc.maxf("mrr outside distance / extent", worst / ext);
                    acc.maxf("mrr area / bbox area", a / (br.width() * br.height()));
                    if worst > 1e-9 * ext {
                        acc.viol("minimum_rotated_rect does not contain an input point".into(), idx, || json!({"points": format!("{:?}", pts), "scale": sc, "rect": format!("{:?}", r), "outside_by": worst}));
                    }
                    // the documented contract is the *minimum* bounding rectangle: the smallest rectangle with a side on a hull edge (exact, from the integer hull)
                    if exact.len() >= 3 {
                        let h = &exact;
                        let mut best = f64::INFINITY;
                        for i in 0..h.len() {
                            let (p, q) = (h[i], h[(i + 1) % h.len()]);
                            let (ex, ey) = ((q.0 - p.0) as i128, (q.1 - p.1) as i128);
                            let (mut lo_a, mut hi_a, mut lo_c, mut hi_c) = (i128::MAX, i128::MIN, i128::MAX, i128::MIN);
                            for v in h.iter() {
                                let (dx, dy) = ((v.0 - p.0) as i128, (v.1 - p.1) as i128);
                                let (al, cr) = (dx * ex + dy * ey, dx * ey - dy * ex);
                                lo_a = lo_a.min(al);
                                hi_a = hi_a.max(al);
                                lo_c = lo_c.min(cr);
                                hi_c = hi_c.max(cr);
                            }
                            let area = ((hi_a - lo_a) as f64) * ((hi_c - lo_c) as f64) / ((ex * ex + ey * ey) as f64);
                            best = best.min(area);
                        }
                        let want = best * sc * sc;
                        acc.maxf("mrr area / exact minimum area", a / want);
                        if a > want * (1.0 + 1e-9) {
                            acc.viol("minimum_rotated_rect is not minimal: a rectangle on another hull edge is smaller".into(), idx, || json!({"points": format!("{:?}", pts), "scale": sc, "rect": format!("{:?}", r), "area": a, "exact_minimum_area": want}));
                        }
                    }
                    if a > br.width() * br.height() * (1.0 + 1e-12) + 1e-12 * ext * ext {
                        acc.viol("minimum_rotated_rect larger than the bounding rect".into(), idx, || json!({"points": format!("{:?}", pts), "scale": sc, "rect": format!("{:?}", r), "area": a, "bbox_area": br.width() * br.height()}));
                    }
                }
            }
        }
    }
}

pub fn run(mut run: Run) -> i32 {
    let quick = run.ctx.quick();
    run.rule = "every ordered sequence of k distinct lattice points (G4, k<=5, thorough k<=6; G5, k<=4, thorough k<=5; order matters for the tie-breaking of quick-hull) and every sequence with repetition (G3, k<=6; thorough k<=7), \
        through quick_hull, graham_hull, ConvexHull for MultiPoint/LineString/Polygon in f64 and i64: closed, CCW, strictly convex, vertex set = exact monotone-chain hull, contains every input by exact orientation; \
        minimum_rotated_rect contains all inputs and is no larger than the bounding rect; distinct = (n, hull size, distinct points)"
        .into();
    run.assumptions = vec!["hull assertions only for inputs with >= 3 non-collinear points; degenerate inputs must not panic".into()];
    let g4 = grid(4);
    // sequences without repetition over G4: k = 3..5
    for k in 3..=(if quick { 5usize } else { 6 }) {
        let n: usize = (0..k).map(|i| 16 - i).product();
        let g4 = g4.clone();
        run.stage(&format!("G4-distinct-k{}", k), n, move |idx, acc| {
            // decode idx into a k-permutation of 16
            let mut avail: Vec<usize> = (0..16).collect();
            let mut rem = idx;
            let mut pts = Vec::with_capacity(k);
            for i in 0..k {
                let base = 16 - i;
                let d = rem % base;
                rem /= base;
                pts.push(g4[avail.remove(d)]);
            }
            check_seq(acc, idx, &pts, idx % 16 == 0);
        });
    }
    // sequences without repetition over the 5x5 lattice (25 points: more collinear triples and longer collinear runs)
    let g5 = grid(5);
    for k in 3..=(if quick { 4usize } else { 5 }) {
        let n: usize = (0..k).map(|i| 25 - i).product();
        let g5 = g5.clone();
        run.stage(&format!("G5-distinct-k{}", k), n, move |idx, acc| {
            let mut avail: Vec<usize> = (0..25).collect();
            let mut rem = idx;
            let mut pts = Vec::with_capacity(k);
            for i in 0..k {
                let base = 25 - i;
                let d = rem % base;
                rem /= base;
                pts.push(g5[avail.remove(d)]);
            }
            check_seq(acc, idx, &pts, idx % 16 == 0);
        });
    }
    let g3 = grid(3);
    let kmax = if quick { 6 } else { 7 };
    for k in 1..=kmax {
        let n = 9usize.pow(k as u32);
        let g3 = g3.clone();
        run.stage(&format!("G3-repetition-k{}", k), n, move |idx, acc| {
            let pts: Vec<IP> = nth_sequence(9, k, idx).iter().map(|&i| g3[i]).collect();
            check_seq(acc, idx, &pts, true);
        });
    }
    // large coordinates (~1e9: cross products exceed 2^53) with several points within a few units of one chord: the farthest-point search of
    // quick-hull works in rounded floating point there, the partition in exact arithmetic; every order of the points
    {
        let (a, b): (i64, i64) = (400000007, 300000011);
        let perms: Vec<Vec<usize>> = { let mut v = vec![]; let idxs = [0usize, 1, 2, 3, 4]; fn rec(cur: &mut Vec<usize>, rest: &[usize], out: &mut Vec<Vec<usize>>) { if rest.is_empty() { out.push(cur.clone()); return; } for i in 0..rest.len() { let mut r = rest.to_vec(); let x = r.remove(i); cur.push(x); rec(cur, &r, out); cur.pop(); } } rec(&mut vec![], &idxs, &mut v); v };
        let np = if quick { 12 } else { perms.len() };
        run.stage("large-near-collinear", 625 * np, move |idx, acc| {
            let (o, pi) = ((idx / np) as i64, idx % np);
            let (dx1, dy1, dx2, dy2) = (o % 5 - 2, (o / 5) % 5 - 2, (o / 25) % 5 - 2, o / 125 - 2);
            let base = [(0, 0), (a + dx1, b + dy1), (2 * a + dx2, 2 * b + dy2), (3 * a, 3 * b), (a, -b)];
            let perm = &perms[pi * (perms.len() / np)];
            let pts: Vec<IP> = perm.iter().map(|&i| base[i]).collect();
            check_seq(acc, idx, &pts, true);
        });
    }
    // integer instantiation with large extent: a chord O-E of direction (a, b) (coprime, ~2^28) and points q_j whose cross product with the chord is exactly -3j
    // (built from the Bezout pair of (a, b)), at different positions along the chord: the candidates' distances from the chord differ by a few units while the
    // products are ~2^58, so any ranking done in 53-bit floating point cannot tell them apart; all products fit i64. i64 quick/graham, and graham<f64> (exact predicates)
    {
        let (a, b): (i64, i64) = (268435459, 200000033);
        // Bezout: b*u - a*v = 1
        fn egcd(x: i128, y: i128) -> (i128, i128, i128) { if y == 0 { (x, 1, 0) } else { let (g, s, t) = egcd(y, x % y); (g, t, s - (x / y) * t) } }
        let (g, s0, t0) = egcd(b as i128, a as i128);
        assert!(g == 1);
        let (u, v) = ((s0.rem_euclid(a as i128)) as i64, 0i64);
        let v = { let _ = (t0, v); ((b as i128 * u as i128 - 1) / a as i128) as i64 };
        assert!(b as i128 * u as i128 - a as i128 * v as i128 == 1);
        let orders: Vec<[usize; 5]> = vec![[0, 1, 2, 3, 4], [4, 3, 2, 1, 0], [2, 0, 3, 1, 4], [3, 2, 4, 0, 1], [1, 4, 0, 2, 3], [2, 3, 0, 4, 1]];
        let no = if quick { 3 } else { orders.len() };
        let jm: i64 = if quick { 4 } else { 6 };
        run.stage("integer-bezout-near-collinear", (jm * jm * 9) as usize * no, move |idx, acc| {
            let (k, oi) = ((idx / no) as i64, idx % no);
            let (j1, j2, s1, s2) = (1 + k % jm, 1 + (k / jm) % jm, (k / (jm * jm)) % 3, k / (jm * jm * 3));
            let q = |j: i64, sl: i64| -> IP {
                let t = (j as i128 * u as i128).div_euclid(a as i128) as i64 - sl;
                (j * u - t * a, j * v - t * b)
            };
            let base = [(0, 0), (3 * a, 3 * b), q(j1, s1), q(j2, s2), (a, 2 * b)]; // the far point is on the other side of the chord: the q points compete only with each other
            let pts: Vec<IP> = orders[oi].iter().map(|&i| base[i]).collect();
            let exact = hull(&pts);
            acc.class(format!("bezout j{} j{} same-slot{} hull{}", j1, j2, s1 == s2, exact.len()));
            let ci: Vec<Coord<i64>> = pts.iter().map(|&p| Coord { x: p.0, y: p.1 }).collect();
            let cf: Vec<Coord<f64>> = pts.iter().map(|&p| Coord { x: p.0 as f64, y: p.1 as f64 }).collect();
            let results: Vec<(&str, Result<Vec<IP>, String>)> = vec![
                ("quick_hull<i64> (large extent, products fit)", guard(|| ring_of_i(&quick_hull(&mut ci.clone())))),
                ("graham_hull<i64> (large extent, products fit)", guard(|| ring_of_i(&graham_hull(&mut ci.clone(), false)))),
                ("MultiPoint::convex_hull<i64> (large extent, products fit)", guard(|| ring_of_i(MultiPoint(ci.iter().map(|&c| Point(c)).collect()).convex_hull().exterior()))),
                ("graham_hull<f64> (large extent)", guard(|| ring_of_f(&graham_hull(&mut cf.clone(), false)))),
            ];
            for (name, r) in results {
                acc.evals += 1;
                match r {
                    Err(p) => acc.viol(format!("{} panic", name), idx, || json!({"points": format!("{:?}", pts), "panic": p})),
                    Ok(ring) => {
                        if let Some(msg) = check_ring(name, &ring, true, &pts, &exact) {
                            acc.viol(msg, idx, || json!({"points": format!("{:?}", pts), "got": format!("{:?}", ring), "exact_hull": format!("{:?}", exact)}));
                        }
                    }
                }
            }
        });
    }
    // three coordinates forming a very thin but non-degenerate triangle (cross product +-1 .. +-4 with products above 2^53, f32: above 2^24): the hull of a
    // Triangle, a 3-point MultiPoint, a 3-coordinate LineString and the slice entry points must keep all three (exact orientation)
    {
        let w: i64 = if quick { 5 } else { 9 };
        run.stage("thin-triangle-three-coordinates", (w * w * w * w) as usize * 2, move |idx, acc| {
            let f32_twin = idx % 2 == 1;
            let k = (idx / 2) as i64;
            let big: i64 = if f32_twin { 1 << 12 } else { 1 << 27 };
            let (p1, p2): (IP, IP) = ((big + k % w, big + (k / w) % w - 1), (2 * big + (k / (w * w)) % w, 2 * big + k / (w * w * w) - 1));
            let pts: Vec<IP> = vec![(0, 0), p1, p2];
            let cr = orient_i(pts[0], pts[1], pts[2]);
            acc.class(format!("thin triangle {} cross{}", if f32_twin { "f32" } else { "f64" }, cr.signum()));
            let exact = hull(&pts);
            if exact.len() < 3 {
                return; // exactly collinear: no hull demanded
            }
            macro_rules! go {
                ($t:ty, $tn:expr) => {{
                    let c: Vec<Coord<$t>> = pts.iter().map(|&p| Coord { x: p.0 as $t, y: p.1 as $t }).collect();
                    let ring = |l: &LineString<$t>| -> Vec<IP> { l.0.iter().map(|c| (c.x as i64, c.y as i64)).collect() };
                    let results: Vec<(String, Result<Vec<IP>, String>)> = vec![
                        (format!("Triangle::convex_hull<{}> of a thin triangle", $tn), guard(|| ring(geo::Triangle(c[0], c[1], c[2]).convex_hull().exterior()))),
                        (format!("Triangle(cw)::convex_hull<{}> of a thin triangle", $tn), guard(|| ring(geo::Triangle(c[2], c[1], c[0]).convex_hull().exterior()))),
                        (format!("MultiPoint::convex_hull<{}> of a thin triangle", $tn), guard(|| ring(MultiPoint(c.iter().map(|&x| Point(x)).collect()).convex_hull().exterior()))),
                        (format!("LineString::convex_hull<{}> of a thin triangle", $tn), guard(|| ring(LineString::new(c.clone()).convex_hull().exterior()))),
                        (format!("quick_hull<{}> of a thin triangle", $tn), guard(|| ring(&quick_hull(&mut c.clone())))),
                        (format!("graham_hull<{}> of a thin triangle", $tn), guard(|| ring(&graham_hull(&mut c.clone(), false)))),
                    ];
                    for (name, r) in results {
                        acc.evals += 1;
                        match r {
                            Err(p) => acc.viol(format!("{} panic", name), idx, || json!({"points": format!("{:?}", pts), "panic": p})),
                            Ok(rg) => {
                                if let Some(msg) = check_ring(&name, &rg, true, &pts, &exact) {
                                    acc.viol(msg, idx, || json!({"points": format!("{:?}", pts), "got": format!("{:?}", rg), "exact_cross_product": cr.to_string()}));
                                }
                            }
                        }
                    }
                }};
            }
            if f32_twin {
                go!(f32, "f32");
            } else {
                go!(f64, "f64");
            }
        });
    }
    // f32 coordinates of very different magnitude in a near-collinear configuration (differences of f32 values are not exact in f64 once the exponents are far
    // apart): a tiny or a huge ordinate on one point, the others on or next to a diagonal; oracle: exact orientation of the f32 values (bigf on their f64 images)
    {
        let tiny: Vec<f32> = vec![1e-20, -1e-20, 1e-30, 2e-38, 3e-12, -7e-9];
        let diag: Vec<(f32, f32)> = vec![(1.0, 1.0), (2.0, 2.0), (3.0, 3.0), (0.5, 0.5), (1.0, 1.0000001), (2.0, 1.9999999)];
        let nd = diag.len();
        run.stage("f32-mixed-magnitudes", tiny.len() * nd * nd * 4, move |idx, acc| {
            let (t, i, j, form) = (tiny[idx / (nd * nd * 4)], (idx / (nd * 4)) % nd, (idx / 4) % nd, idx % 4);
            if i == j {
                return;
            }
            let first: (f32, f32) = match form { 0 => (t, 0.0), 1 => (0.0, t), 2 => (t, t * 2.0), _ => (t, -t) };
            let pts: Vec<(f32, f32)> = vec![first, diag[i], diag[j], (3.0, 0.0)];
            use crate::bigf;
            let f2 = |p: (f32, f32)| -> bigf::F2 { (p.0 as f64, p.1 as f64) };
            // exact hull of four points: a point is a (strict) vertex unless it lies on a closed segment between two others or in the closed triangle of the other three
            let n = pts.len();
            let mut exact: Vec<usize> = vec![];
            for a in 0..n {
                let others: Vec<usize> = (0..n).filter(|&k| k != a).collect();
                let mut covered = false;
                for x in 0..others.len() {
                    for y in x + 1..others.len() {
                        if bigf::on_segment(f2(pts[others[x]]), f2(pts[others[y]]), f2(pts[a])) {
                            covered = true;
                        }
                    }
                }
                let (b, c, d) = (f2(pts[others[0]]), f2(pts[others[1]]), f2(pts[others[2]]));
                if bigf::orient(b, c, d) != 0 {
                    let (o1, o2, o3) = (bigf::orient(b, c, f2(pts[a])), bigf::orient(c, d, f2(pts[a])), bigf::orient(d, b, f2(pts[a])));
                    if (o1 >= 0 && o2 >= 0 && o3 >= 0) || (o1 <= 0 && o2 <= 0 && o3 <= 0) {
                        covered = true;
                    }
                }
                if !covered {
                    exact.push(a);
                }
            }
            if exact.len() < 3 {
                return;
            }
            acc.class(format!("f32 mixed magnitudes form{} hull{}", form, exact.len()));
            let c32: Vec<Coord<f32>> = pts.iter().map(|p| Coord { x: p.0, y: p.1 }).collect();
            let mut want: Vec<(u32, u32)> = exact.iter().map(|&e| (pts[e].0.to_bits(), pts[e].1.to_bits())).collect();
            want.sort();
            for (name, r) in [
                ("quick_hull<f32> (mixed magnitudes)", guard(|| quick_hull(&mut c32.clone()))),
                ("graham_hull<f32> (mixed magnitudes)", guard(|| graham_hull(&mut c32.clone(), false))),
                ("MultiPoint::convex_hull<f32> (mixed magnitudes)", guard(|| MultiPoint(c32.iter().map(|&c| Point(c)).collect()).convex_hull().exterior().clone())),
            ] {
                acc.evals += 1;
                match r {
                    Err(e) => acc.viol(format!("{} panic", name), idx, || json!({"points": format!("{:?}", pts), "panic": e})),
                    Ok(ring) => {
                        let mut got: Vec<(u32, u32)> = ring.0.iter().map(|c| (c.x.to_bits(), c.y.to_bits())).collect();
                        got.sort();
                        got.dedup();
                        // -0.0 / 0.0 do not occur among the inputs, so bit patterns identify the coordinates
                        if got != want {
                            acc.viol(format!("{}: vertex set differs from the exact hull", name), idx, || json!({"points": format!("{:?}", pts), "got": format!("{:?}", ring), "exact_hull_indices": format!("{:?}", exact)}));
                        }
                    }
                }
            }
        });
    }
    // a larger point set with many collinear points: every subset of size 6 and 7 of the 3x3 lattice scaled (order = ascending)
    for k in [6usize, 7] {
        let subs = subsets(&g3, k);
        run.stage(&format!("G3-subsets-k{}", k), subs.len(), |idx, acc| {
            let mut p = subs[idx].clone();
            check_seq(acc, idx, &p, true);
            p.reverse();
            check_seq(acc, idx, &p, true);
        });
    }
    run.finish()
}

//! C11 line_intersection classifies and locates segment crossings exactly.
use crate::bigf::{self, next_up, F2};
use crate::engine::*;
use crate::enumr::*;
use crate::exact::*;
use geo::algorithm::line_intersection::{line_intersection, LineIntersection};
use geo::{Coord, Intersects, Line};
use serde_json::json;

fn co(p: IP) -> Coord<f64> {
    Coord { x: p.0 as f64, y: p.1 as f64 }
}
#[derive(Debug, Clone, PartialEq)]
enum Cls {
    None,
    Point { proper: bool },
    Collinear,
}
fn describe(r: &Option<LineIntersection<f64>>) -> String {
    match r {
        None => "None".into(),
        Some(LineIntersection::SinglePoint { intersection, is_proper }) => format!("SinglePoint({} {}, proper={})", intersection.x, intersection.y, is_proper),
        Some(LineIntersection::Collinear { intersection }) => format!("Collinear({} {} -> {} {})", intersection.start.x, intersection.start.y, intersection.end.x, intersection.end.y),
    }
}
fn ulps(a: f64, b: f64) -> f64 {
    if a == b {
        return 0.0;
    }
    let u = (f64::from_bits(a.abs().max(b.abs()).max(f64::MIN_POSITIVE).to_bits() + 1) - a.abs().max(b.abs())).abs();
    (a - b).abs() / u
}

fn check_lattice(acc: &mut Acc, idx: usize, a: IP, b: IP, c: IP, d: IP) {
    // exact common part
    let exact = seg_common(a, b, c, d);
    let (p, q) = (Line::new(co(a), co(b)), Line::new(co(c), co(d)));
    let got = guard(|| line_intersection(p, q));
    acc.evals += 1;
    let kind = match &exact {
        Common::Nothing => "none".to_string(),
        Common::Overlap => "overlap".to_string(),
        Common::Point(x) => {
            let endp = |s: IP, e: IP| HP::int(s) == *x || HP::int(e) == *x;
            format!("point{}{}", if endp(a, b) { "-endA" } else { "" }, if endp(c, d) { "-endB" } else { "" })
        }
    };
    let degen = (a == b) as u8 + (c == d) as u8;
    acc.class(format!("{} degenerate{} parallel{}", kind, degen, (orient_i(a, b, c) == 0 && orient_i(a, b, d) == 0) as u8));
    acc.sample(idx, || json!({"p": format!("{:?}->{:?}", a, b), "q": format!("{:?}->{:?}", c, d), "exact": kind}));
    let got = match got {
        Ok(g) => g,
        Err(e) => {
            acc.viol(format!("line_intersection panic ({})", kind), idx, || json!({"p": format!("{:?}", p), "q": format!("{:?}", q), "panic": e}));
            return;
        }
    };
    let wit = |extra: &str| json!({"p": format!("{:?}->{:?}", a, b), "q": format!("{:?}->{:?}", c, d), "exact": kind, "got": describe(&got), "detail": extra});
    // the same pair at the exact scales 2^-30 and 2^30, and in f32 on the lattice: scaling by a power of two commutes with every floating-point
    // operation, so the result must be the scaled result bit for bit (no absolute threshold may exist); f32 must give the same classification
    if idx % 2 == 0 {
        for sc in [1.0 / 1073741824.0, 1073741824.0] {
            let f = |p: IP| Coord { x: p.0 as f64 * sc, y: p.1 as f64 * sc };
            acc.evals += 1;
            let gs = guard(|| line_intersection(Line::new(f(a), f(b)), Line::new(f(c), f(d))));
            let back = gs.map(|r| match r {
                None => None,
                Some(LineIntersection::SinglePoint { intersection, is_proper }) => Some(LineIntersection::SinglePoint { intersection: Coord { x: intersection.x / sc, y: intersection.y / sc }, is_proper }),
                Some(LineIntersection::Collinear { intersection }) => Some(LineIntersection::Collinear { intersection: Line::new(Coord { x: intersection.start.x / sc, y: intersection.start.y / sc }, Coord { x: intersection.end.x / sc, y: intersection.end.y / sc }) }),
            });
            if back != Ok(got) {
                acc.viol(format!("line_intersection does not scale with its operands (scale 2^{}, {})", if sc < 1.0 { -30 } else { 30 }, kind), idx, || wit(&format!("scaled result, scaled back: {:?}", back.as_ref().map(describe))));
            }
        }
        let f32c = |p: IP| Coord { x: p.0 as f32, y: p.1 as f32 };
        acc.evals += 1;
        let g32 = guard(|| line_intersection(Line::new(f32c(a), f32c(b)), Line::new(f32c(c), f32c(d))));
        let same_class = match (&g32, &got) {
            (Ok(None), None) => true,
            (Ok(Some(LineIntersection::SinglePoint { intersection: i32_, is_proper: p32 })), Some(LineIntersection::SinglePoint { intersection, is_proper })) => p32 == is_proper && (i32_.x as f64 - intersection.x).abs() <= 1e-5 && (i32_.y as f64 - intersection.y).abs() <= 1e-5,
            (Ok(Some(LineIntersection::Collinear { intersection: l32 })), Some(LineIntersection::Collinear { intersection })) => l32.start.x as f64 == intersection.start.x && l32.end.y as f64 == intersection.end.y && l32.start.y as f64 == intersection.start.y && l32.end.x as f64 == intersection.end.x,
            _ => false,
        };
        if !same_class {
            acc.viol(format!("line_intersection<f32> differs from <f64> on lattice operands ({})", kind), idx, || wit(&format!("f32: {:?}", g32)));
        }
    }
    match (&exact, &got) {
        (Common::Nothing, None) => {}
        (Common::Overlap, Some(LineIntersection::Collinear { intersection })) => {
            // exact shared sub-segment: the two middle points of the four endpoints along the common line
            let mut pts = vec![a, b, c, d];
            pts.sort();
            let (lo, hi) = (pts[1], pts[2]);
            let (s, e) = ((intersection.start.x as i64, intersection.start.y as i64), (intersection.end.x as i64, intersection.end.y as i64));
            if !((s == lo && e == hi) || (s == hi && e == lo)) || intersection.start.x.fract() != 0.0 {
                acc.viol("Collinear overlap is not the exact shared sub-segment".into(), idx, || wit(&format!("exact overlap {:?}..{:?}", lo, hi)));
            }
        }
        (Common::Point(x), Some(LineIntersection::SinglePoint { intersection, is_proper })) => {
            let interior = |s: IP, e: IP| s != e && HP::int(s) != *x && HP::int(e) != *x;
            let want_proper = interior(a, b) && interior(c, d);
            if *is_proper != want_proper {
                acc.viol(format!("is_proper wrong (expected {})", want_proper), idx, || wit(""));
            }
            if !want_proper {
                // improper: must be bit-identical to the (integer) endpoint involved
                if !(x.d == 1 && intersection.x == x.x as f64 && intersection.y == x.y as f64) {
                    acc.viol("improper intersection point is not the endpoint involved".into(), idx, || wit(&format!("exact {}/{} {}/{}", x.x, x.d, x.y, x.d)));
                }
            } else {
                let (ex, ey) = (x.fx(), x.fy());
                let u = ulps(intersection.x, ex).max(ulps(intersection.y, ey));
                acc.maxf("proper point deviation (ulps)", u);
                let inbox = |l: &Line<f64>| {
                    intersection.x >= l.start.x.min(l.end.x) && intersection.x <= l.start.x.max(l.end.x) && intersection.y >= l.start.y.min(l.end.y) && intersection.y <= l.start.y.max(l.end.y)
                };
                if u > 4.0 {
                    acc.viol("proper intersection point more than 4 ulp from the exact crossing".into(), idx, || wit(&format!("exact {} {}", ex, ey)));
                }
                if !inbox(&p) || !inbox(&q) {
                    acc.viol("proper intersection point outside a segment's bounding box".into(), idx, || wit(""));
                }
            }
        }
        _ => {
            let g = match &got {
                None => "None",
                Some(LineIntersection::SinglePoint { .. }) => "SinglePoint",
                Some(LineIntersection::Collinear { .. }) => "Collinear",
            };
            acc.viol(format!("classification wrong: exact {} got {} (zero-length operands: {})", kind.split('-').next().unwrap(), g, degen), idx, || wit(""));
        }
    }
    // agreement with intersects
    let it = p.intersects(&q);
    if it != got.is_some() {
        acc.viol("line_intersection.is_some() disagrees with Line::intersects".into(), idx, || wit(&format!("intersects={}", it)));
    }
    // invariance under swapping the operands and reversing either
    let canon = |r: &Option<LineIntersection<f64>>| -> String {
        match r {
            None => "None".into(),
            Some(LineIntersection::SinglePoint { intersection, is_proper }) => {
                if *is_proper {
                    "proper".into()
                } else {
                    format!("improper {} {}", intersection.x, intersection.y)
                }
            }
            Some(LineIntersection::Collinear { intersection }) => {
                let (s, e) = ((intersection.start.x, intersection.start.y), (intersection.end.x, intersection.end.y));
                let (lo, hi) = if s <= e { (s, e) } else { (e, s) };
                format!("collinear {:?} {:?}", lo, hi)
            }
        }
    };
    let base = canon(&got);
    let (pr, qr) = (Line::new(co(b), co(a)), Line::new(co(d), co(c)));
    for (name, r) in [("swap", guard(|| line_intersection(q, p))), ("reverse-p", guard(|| line_intersection(pr, q))), ("reverse-q", guard(|| line_intersection(p, qr))), ("swap+reverse", guard(|| line_intersection(qr, pr)))] {
        acc.evals += 1;
        match r {
            Ok(r) => {
                if canon(&r) != base {
                    acc.viol(format!("result depends on operand order/direction ({})", name), idx, || wit(&format!("{} gives {}", name, describe(&r))));
                }
            }
            Err(e) => acc.viol(format!("line_intersection panic ({})", name), idx, || wit(&e)),
        }
    }
}

pub fn run(mut run: Run) -> i32 {
    let quick = run.ctx.quick();
    run.rule = "every ordered pair of segments over the 6x6 lattice including zero-length ones (quick; thorough 9x9): exact classification None / single point (proper iff interior to both) / Collinear with the exact shared sub-segment, \
        improper point bit-identical to the endpoint, proper point within 4 ulp of the exact rational crossing and inside both bounding boxes, agreement with Line::intersects, invariance under swap/reversal; \
        plus ulp windows: one endpoint ranging over every point of a w x w ulp lattice around nearly-parallel / large-magnitude configurations against exact big-integer classification; distinct = (exact kind, degenerate operands, parallel)"
        .into();
    run.assumptions = vec!["4-ulp bound on proper points is asserted only on the lattice family, where conditioning is bounded".into()];
    let g = grid(if quick { 6 } else { 9 });
    let n = g.len();
    let n2 = n * n;
    run.stage("lattice-pairs", n2 * n2, |idx, acc| {
        let (s1, s2) = (idx / n2, idx % n2);
        check_lattice(acc, idx, g[s1 / n], g[s1 % n], g[s2 / n], g[s2 % n]);
    });
    // ulp windows
    let w: i64 = run.ctx.pick(192, 1024);
    struct B {
        name: &'static str,
        a: F2,
        b: F2,
        c: F2,
        d0: F2, // window centre for the moving endpoint d
    }
    let m = 4503599627370496.0;
    let bs = vec![
        B { name: "touching-diagonal", a: (12.0, 12.0), b: (24.0, 24.0), c: (0.5, 0.75), d0: (18.0, 18.0) },
        B { name: "nearly-parallel", a: (-1000000.0, -1000000.0), b: (1000000.0, 1000000.0000000002), c: (-1000000.0, -1000000.5), d0: (1000000.0, 1000000.0) },
        B { name: "large-magnitude", a: (-m, -m), b: (m, m + 2.0), c: (7.0, -3.0), d0: (1.0, 2.0) },
        B { name: "collinear-overlap", a: (1.0, 1.0), b: (9.0, 9.0), c: (3.0, 3.0), d0: (5.0, 5.0) },
        // the moving endpoint pokes through the middle of the other segment by less than an ulp (nearest-endpoint fallback territory)
        B { name: "end-pokes-through-middle", a: (-1000.0, 0.25), b: (1000.0, 1.75), c: (-446.5, 994.5), d0: (250.0, 1.1875) },
        B { name: "end-pokes-through-middle-steep", a: (0.1, -700.0), b: (0.7, 900.0), c: (812.3, 55.5), d0: (0.4, 100.0) },
        B { name: "endpoint-near-endpoint", a: (0.1, 0.3), b: (0.7, 0.2), c: (0.9, 0.9), d0: (0.7, 0.2) },
        // almost-T-junctions with non-dyadic coordinates of mixed magnitude: the moving endpoint sits within an ulp of the other segment, the
        // crossing is proper by a hair, and the conditioned coordinates round differently from the de-conditioned ones
        B { name: "near-T-junction-1", a: (-0.4732474777488562, 63.47512202128044), b: (41.908813300523605, 85.96026337903928), c: (5.325883290967752, 64.53154059900652), d0: (0.04393475338650399, 63.749504988065326) },
        B { name: "near-T-junction-2", a: (23.27589170824905, 57.35587248465694), b: (-7.47226222019745, -12.368650054678469), c: (6.765271600504288, 35.13066062799928), d0: (14.771419646088605, 38.07112923265082) },
        B { name: "near-T-junction-3", a: (-4.419963268257902, 29.112122885437486), b: (94.58821108391714, -30.060437678835953), c: (7.087926465279592, 32.49300298997202), d0: (-1.9891558503258415, 27.659342848851445) },
    ];
    let ww = (w * w) as usize;
    run.stage("ulp-windows", bs.len() * ww, |idx, acc| {
        let b = &bs[idx / ww];
        let k = (idx % ww) as i64;
        let d: F2 = (next_up(b.d0.0, k / w - w / 2), next_up(b.d0.1, k % w - w / 2));
        let cf = |p: F2| Coord { x: p.0, y: p.1 };
        let (p, q) = (Line::new(cf(b.a), cf(b.b)), Line::new(cf(b.c), cf(d)));
        let (o1, o2, o3, o4) = (bigf::orient(b.a, b.b, b.c), bigf::orient(b.a, b.b, d), bigf::orient(b.c, d, b.a), bigf::orient(b.c, d, b.b));
        let meets = bigf::segments_intersect(b.a, b.b, b.c, d);
        let all_col = o1 == 0 && o2 == 0 && o3 == 0 && o4 == 0;
        let exact = if !meets {
            Cls::None
        } else if all_col {
            // overlap in more than one point?
            let ends = [b.a, b.b, b.c, d];
            let mut common: Vec<F2> = vec![];
            for &e in &ends {
                if bigf::on_segment(b.a, b.b, e) && bigf::on_segment(b.c, d, e) && !common.contains(&e) {
                    common.push(e);
                }
            }
            if common.len() > 1 {
                Cls::Collinear
            } else {
                Cls::Point { proper: false }
            }
        } else {
            Cls::Point { proper: o1 != 0 && o2 != 0 && o3 != 0 && o4 != 0 }
        };
        acc.evals += 1;
        acc.class(format!("{} {:?}", b.name, exact));
        acc.sample(idx, || json!({"base": b.name, "moving_endpoint": [d.0, d.1], "exact": format!("{:?}", exact)}));
        // every argument order and direction must satisfy the same clauses (the moving endpoint is q.end, q.start, p.end, p.start in turn)
        let (pr, qr) = (Line::new(cf(b.b), cf(b.a)), Line::new(cf(d), cf(b.c)));
        for (vname, x, y) in [("p,q", p, q), ("q,p", q, p), ("p,reversed q", p, qr), ("reversed q,p", qr, p), ("reversed p,q", pr, q), ("q,reversed p", q, pr)] {
        let (p, q) = (x, y);
        let (pa, pb, qa, qb) = ((p.start.x, p.start.y), (p.end.x, p.end.y), (q.start.x, q.start.y), (q.end.x, q.end.y));
        let got = guard(|| line_intersection(p, q));
        let wit = |g: String| json!({"base": b.name, "argument_order": vname, "p": format!("{:?}", p), "q": format!("{:?}", q), "exact": format!("{:?}", exact), "got": g});
        match got {
            Err(e) => acc.viol(format!("line_intersection panic [{}]", b.name), idx, || wit(e)),
            Ok(r) => {
                let gc = match &r {
                    None => Cls::None,
                    Some(LineIntersection::SinglePoint { is_proper, .. }) => Cls::Point { proper: *is_proper },
                    Some(LineIntersection::Collinear { .. }) => Cls::Collinear,
                };
                if gc != exact {
                    acc.viol(format!("classification wrong on ulp window: exact {:?} got {:?} [{}]", exact, gc, b.name), idx, || wit(describe(&r)));
                } else if let Some(LineIntersection::SinglePoint { intersection, is_proper }) = &r {
                    let ip = (intersection.x, intersection.y);
                    if !*is_proper {
                        // must be one of the endpoints, and lie on both segments exactly
                        let is_end = [pa, pb, qa, qb].contains(&ip);
                        if !is_end || !bigf::on_segment(pa, pb, ip) || !bigf::on_segment(qa, qb, ip) {
                            acc.viol(format!("improper point is not an endpoint lying on both segments [{}]", b.name), idx, || wit(describe(&r)));
                        }
                    } else {
                        // "lies in both bounding boxes within a few ulps": the nearest-endpoint fallback returns an endpoint of one
                        // segment, which may sit an ulp outside the other's envelope; containment is asserted with a 4-ulp slack
                        let out = |v: f64, lo: f64, hi: f64| if v < lo { ulps(v, lo) } else if v > hi { ulps(v, hi) } else { 0.0 };
                        let dev = |l: &Line<f64>| out(ip.0, l.start.x.min(l.end.x), l.start.x.max(l.end.x)).max(out(ip.1, l.start.y.min(l.end.y), l.start.y.max(l.end.y)));
                        acc.maxf("proper point outside a bounding box by (ulps)", dev(&p).max(dev(&q)));
                        let inbox = |l: &Line<f64>| dev(l) <= 4.0;
                        if !inbox(&p) || !inbox(&q) {
                            acc.viol(format!("proper point outside a bounding box [{}]", b.name), idx, || wit(describe(&r)));
                        }
                    }
                }
                if p.intersects(&q) != r.is_some() || q.intersects(&p) != meets {
                    acc.viol(format!("is_some disagrees with intersects / exact [{}]", b.name), idx, || wit(describe(&r)));
                }
            }
        }
        }
    });
    run.finish()
}

//! C10 Triangulations and monotone subdivision tile the polygon exactly.
use crate::build::*;
use crate::engine::*;
use crate::enumr::*;
use crate::exact::*;
use geo::algorithm::triangulate_delaunay::DelaunayTriangulationConfig;
use geo::{monotone_subdivision, Area, Coord, Intersects, MapCoords, MonotonicPolygons, MultiPolygon, Polygon, StitchTriangles, Triangle, TriangulateDelaunay, TriangulateEarcut};
use serde_json::json;

fn tri_ip(t: &Triangle<f64>, off: f64) -> Option<[IP; 3]> {
    let f = |c: Coord<f64>| -> Option<IP> {
        let (x, y) = (c.x - off, c.y - off);
        if x.fract() == 0.0 && y.fract() == 0.0 {
            Some((x as i64, y as i64))
        } else {
            None
        }
    };
    Some([f(t.0)?, f(t.1)?, f(t.2)?])
}

/// exact tiling check: the triangles must cover `region` exactly once. `inside_region(q)` is the exact membership.
fn tiling_defect(tris: &[[IP; 3]], region_segs: &[(IP, IP)], inside_region: &dyn Fn(&HP) -> bool) -> Option<String> {
    let mut segs: Vec<(IP, IP)> = region_segs.to_vec();
    for t in tris {
        if area2(&t[..]) == 0 {
            return Some("degenerate triangle".into());
        }
        for i in 0..3 {
            let e = (t[i], t[(i + 1) % 3]);
            if !segs.contains(&e) && !segs.contains(&(e.1, e.0)) {
                segs.push(e);
            }
        }
    }
    let arr = arrangement(&segs, &[]);
    for q in &arr.faces {
        let cnt = tris.iter().filter(|t| ring_pos(&t[..], q) == 2).count();
        let want = if inside_region(q) { 1 } else { 0 };
        if cnt != want {
            return Some(if cnt > want && want == 1 {
                "triangles overlap".into()
            } else if cnt > want {
                "triangle outside the region".into()
            } else {
                "region not covered".into()
            });
        }
    }
    None
}

fn check_tris(acc: &mut Acc, idx: usize, what: &str, p: &Poly, pg: &Polygon<f64>, tris: Result<Vec<Triangle<f64>>, String>, hull_region: bool, off: f64) {
    acc.evals += 1;
    let tris = match tris {
        Ok(t) => t,
        Err(e) => {
            acc.viol(format!("{} failed/panicked", what), idx, || json!({"polygon": format!("{:?}", pg), "error": e}));
            return;
        }
    };
    let w = |msg: &str| json!({"polygon": format!("{:?}", pg), "triangles": format!("{:?}", tris), "detail": msg});
    let mut its: Vec<[IP; 3]> = vec![];
    for t in &tris {
        match tri_ip(t, off) {
            Some(x) => its.push(x),
            None => {
                acc.viol(format!("{} corner is not a polygon vertex (non-lattice)", what), idx, || w(""));
                return;
            }
        }
    }
    let verts: Vec<IP> = p.shell.iter().chain(p.holes.iter().flatten()).cloned().collect();
    if its.iter().any(|t| t.iter().any(|c| !verts.contains(c))) {
        acc.viol(format!("{} corner is not a polygon vertex", what), idx, || w(""));
        return;
    }
    let ag = AG::Polys(vec![p.clone()]);
    let (region_segs, area_want): (Vec<(IP, IP)>, i64) = if hull_region {
        let h = hull(&verts);
        ((0..h.len()).map(|i| (h[i], h[(i + 1) % h.len()])).collect(), area2(&h).abs())
    } else {
        (ag.segs(), area2(&p.shell).abs() - p.holes.iter().map(|h| area2(h).abs()).sum::<i64>())
    };
    let area_got: i64 = its.iter().map(|t| area2(&t[..]).abs()).sum();
    if area_got != area_want {
        acc.viol(format!("{} triangle areas do not sum to the region's area", what), idx, || w(&format!("2*area got {} want {}", area_got, area_want)));
        return;
    }
    let h = hull(&verts);
    let inside: Box<dyn Fn(&HP) -> bool> = if hull_region { Box::new(move |q: &HP| ring_pos(&h, q) == 2) } else { Box::new(move |q: &HP| locate(&ag, q) == I) };
    if let Some(d) = tiling_defect(&its, &region_segs, &*inside) {
        acc.viol(format!("{}: {}", what, d), idx, || w(&d));
    }
}

pub fn polys(quick: bool) -> Vec<(Poly, bool)> {
    // (polygon, rings touch each other)
    let mut v: Vec<(Poly, bool)> = vec![];
    for r in rings(3, 8) {
        v.push((Poly { shell: r, holes: vec![] }, false));
    }
    for r in rings(4, 5).into_iter().step_by(if quick { 6 } else { 1 }) {
        v.push((Poly { shell: r, holes: vec![] }, false));
    }
    let shells: Vec<Vec<IP>> = vec![
        vec![(0, 0), (3, 0), (3, 3), (0, 3)],
        vec![(0, 0), (3, 0), (0, 3)],
        vec![(0, 0), (3, 1), (2, 3), (0, 2)],
        vec![(0, 0), (3, 0), (3, 3), (1, 1), (0, 3)],
        vec![(0, 3), (1, 1), (1, 0), (3, 2)],
    ];
    let holes = rings_over(&grid(4), if quick { 3 } else { 4 });
    for p in polys_with_hole(&shells, &holes) {
        let touch = ring_contacts(&p.holes[0], &p.shell).map_or(true, |c| !c.is_empty());
        v.push((p, touch));
    }
    // two holes (free, touching the shell, touching each other) in a 6x4 shell
    for p in super::c05::poly_family(quick).into_iter().filter(|p| p.holes.len() == 2).step_by(if quick { 2 } else { 1 }) {
        let mut touch = false;
        for (i, h) in p.holes.iter().enumerate() {
            touch |= ring_contacts(h, &p.shell).map_or(true, |c| !c.is_empty());
            for g in p.holes.iter().skip(i + 1) {
                touch |= ring_contacts(h, g).map_or(true, |c| !c.is_empty());
            }
        }
        v.push((p, touch));
    }
    v
}

pub fn run(mut run: Run) -> i32 {
    let quick = run.ctx.quick();
    run.rule = "every simple lattice polygon (all of G3, G4 up to 5 vertices) and every valid polygon-with-hole over five shells (incl. holes touching the shell), also translated by 1e6: \
        ear-cut (rings not touching), constrained Delaunay, unconstrained Delaunay (tiles the hull), monotone subdivision, stitch(earcut); oracle: corners are polygon vertices, exact area sums, and on every face of the exact arrangement of \
        all triangle and polygon edges the number of covering triangles is 1 inside the region and 0 outside; MonotonicPolygons::intersects == exact location on the half-step lattice; distinct = (algorithm, vertex count, holes, touching)"
        .into();
    run.assumptions = vec!["coordinates returned by the triangulations are lattice values, so exactness is checked in integers".into()];
    let ps = polys(quick);
    let n = ps.len();
    run.extra.insert("polygons".into(), json!(n));
    run.stage("triangulations", n * 2, |idx, acc| {
        let (p, touch) = &ps[idx / 2];
        let off = if idx % 2 == 0 { 0.0 } else { 1e6 };
        let pg0 = poly(p);
        let pg = pg0.map_coords(|c| Coord { x: c.x + off, y: c.y + off });
        acc.class(format!("n{} holes{} touch{} off{}", p.shell.len(), p.holes.len(), touch, off));
        acc.sample(idx, || json!({"polygon": format!("{:?}", pg)}));
        if !touch {
            check_tris(acc, idx, "earcut_triangles", p, &pg, guard(|| pg.earcut_triangles()), false, off);
        }
        check_tris(
            acc,
            idx,
            "constrained_triangulation",
            p,
            &pg,
            guard(|| TriangulateDelaunay::constrained_triangulation(&pg, DelaunayTriangulationConfig::default())).and_then(|r| r.map_err(|e| format!("{:?}", e))),
            false,
            off,
        );
        check_tris(
            acc,
            idx,
            "unconstrained_triangulation",
            p,
            &pg,
            guard(|| TriangulateDelaunay::unconstrained_triangulation(&pg)).and_then(|r| r.map_err(|e| format!("{:?}", e))),
            true,
            off,
        );
        // stitch(constrained Delaunay) has the same area and the same exterior on the half-step lattice (touching rings included)
        {
            acc.evals += 1;
            let r = guard(|| TriangulateDelaunay::constrained_triangulation(&pg, DelaunayTriangulationConfig::default()).map(|t| t.stitch_triangulation()));
            match r {
                Ok(Ok(Ok(mp))) => {
                    let a = mp.unsigned_area();
                    let want = poly_area(p).f();
                    let mut bad = (a - want).abs() > 1e-6;
                    if !bad && off == 0.0 {
                        use geo::CoordinatePosition;
                        for kx in -1..=11i64 {
                            for ky in -1..=9i64 {
                                let q = HP::new(kx as i128, ky as i128, 2);
                                let c = Coord { x: kx as f64 / 2.0, y: ky as f64 / 2.0 };
                                let want = locate(&AG::Polys(vec![p.clone()]), &q);
                                let got_out = mp.coordinate_position(&c) == geo::coordinate_position::CoordPos::Outside;
                                if (want == E) != got_out {
                                    bad = true;
                                }
                            }
                        }
                    }
                    if bad {
                        acc.viol(format!("stitch_triangulation(constrained Delaunay) differs from the polygon (area or exterior), holes={} touching={}", p.holes.len(), touch), idx, || json!({"polygon": format!("{:?}", pg), "stitched": format!("{:?}", mp), "area": a, "expected_area": want}));
                    }
                }
                other => acc.viol(format!("stitch_triangulation(constrained Delaunay) failed/panicked, holes={} touching={}", p.holes.len(), touch), idx, || json!({"polygon": format!("{:?}", pg), "result": format!("{:?}", other).chars().take(300).collect::<String>()})),
            }
        }
        // stitch(earcut) has the same area and the same location on the half-step lattice
        if !touch {
            acc.evals += 1;
            match guard(|| pg.earcut_triangles().stitch_triangulation()) {
                Ok(Ok(mp)) => {
                    let a = mp.unsigned_area();
                    let want = poly_area(p).f();
                    let mut bad = (a - want).abs() > 1e-6;
                    if !bad && off == 0.0 {
                        use geo::CoordinatePosition;
                        for kx in -1..=9i64 {
                            for ky in -1..=9i64 {
                                let q = HP::new(kx as i128, ky as i128, 2);
                                let c = Coord { x: kx as f64 / 2.0, y: ky as f64 / 2.0 };
                                let want = locate(&AG::Polys(vec![p.clone()]), &q);
                                let got = match mp.coordinate_position(&c) {
                                    geo::coordinate_position::CoordPos::Inside => I,
                                    geo::coordinate_position::CoordPos::OnBoundary => B,
                                    _ => E,
                                };
                                // the property asks for the same area; ear-cut may leave a T-junction (a triangle edge through a hole
                                // vertex), which stitches into a self-touching exterior, so only exterior-vs-not is compared
                                if (want == E) != (got == E) {
                                    bad = true;
                                }
                            }
                        }
                    }
                    if bad {
                        acc.viol("stitch_triangulation(earcut) differs from the polygon (area or point location)".into(), idx, || json!({"polygon": format!("{:?}", pg), "stitched": format!("{:?}", mp)}));
                    }
                }
                other => acc.viol("stitch_triangulation failed/panicked".into(), idx, || json!({"polygon": format!("{:?}", pg), "result": format!("{:?}", other)})),
            }
        }
    });
    // monotone subdivision
    run.stage("monotone", n, |idx, acc| {
        let (p, touch) = &ps[idx];
        let pg = poly(p);
        acc.evals += 1;
        acc.class(format!("monotone n{} holes{} touch{}", p.shell.len(), p.holes.len(), touch));
        let pieces = match guard(|| monotone_subdivision([pg.clone()])) {
            Ok(x) => x,
            Err(e) => {
                // how do the rings touch: at a common vertex, or with a vertex of one ring in the interior of an edge of the other (T-junction)
                let tj = p.holes.iter().any(|h| {
                    let on_edge_interior = |v: IP, r: &Vec<IP>| !r.contains(&v) && (0..r.len()).any(|i| on_seg_i(r[i], r[(i + 1) % r.len()], v));
                    h.iter().any(|&v| on_edge_interior(v, &p.shell)) || p.shell.iter().any(|&v| on_edge_interior(v, h))
                });
                let kind = if !*touch { "rings disjoint" } else if tj { "ring vertex in the interior of another ring's edge" } else { "rings share a vertex" };
                acc.viol(format!("monotone_subdivision panic ({})", kind), idx, || json!({"polygon": format!("{:?}", pg), "panic": e}));
                return;
            }
        };
        let w = |msg: &str| json!({"polygon": format!("{:?}", pg), "pieces": format!("{:?}", pieces), "detail": msg});
        acc.sample(idx, || json!({"polygon": format!("{:?}", pg), "pieces": pieces.len()}));
        // areas sum; each piece x-monotone (chains lexicographically increasing)
        let mut total = 0.0;
        let mut tiles: Vec<Vec<IP>> = vec![];
        let mut lattice = true;
        for mpoly in &pieces {
            for chain in [mpoly.top(), mpoly.bot()] {
                if !chain.0.windows(2).all(|w| (w[0].x, w[0].y) < (w[1].x, w[1].y)) {
                    acc.viol("monotone piece chain is not lexicographically increasing".into(), idx, || w(""));
                    return;
                }
            }
            let pp = mpoly.clone().into_polygon();
            total += pp.unsigned_area();
            let ring: Option<Vec<IP>> = pp.exterior().0[..pp.exterior().0.len() - 1].iter().map(|c| if c.x.fract() == 0.0 && c.y.fract() == 0.0 { Some((c.x as i64, c.y as i64)) } else { None }).collect();
            match ring {
                Some(r) => tiles.push(r),
                None => lattice = false,
            }
        }
        if (total - poly_area(p).f()).abs() > 1e-9 {
            acc.viol("monotone pieces' areas do not sum to the polygon's area".into(), idx, || w(&format!("sum {} want {}", total, poly_area(p).f())));
            return;
        }
        // exact tiling by the pieces
        if lattice {
            let ag = AG::Polys(vec![p.clone()]);
            let mut segs = ag.segs();
            for t in &tiles {
                for i in 0..t.len() {
                    let e = (t[i], t[(i + 1) % t.len()]);
                    if e.0 != e.1 && !segs.contains(&e) && !segs.contains(&(e.1, e.0)) {
                        segs.push(e);
                    }
                }
            }
            let arr = arrangement(&segs, &[]);
            for q in &arr.faces {
                let cnt = tiles.iter().filter(|t| ring_pos(t, q) == 2).count();
                let want = if locate(&ag, q) == I { 1 } else { 0 };
                if cnt != want {
                    acc.viol("monotone pieces do not tile the polygon (overlap / outside / gap)".into(), idx, || w(&format!("witness {} {} covered {} times, expected {}", q.fx(), q.fy(), cnt, want)));
                    return;
                }
            }
        } else {
            acc.count("monotone pieces with non-lattice vertices (tiling checked by area only)", 1);
        }
        // point location on the half-step lattice, one step outside the box
        let mono = MonotonicPolygons::from(pg.clone());
        let ag = AG::Polys(vec![p.clone()]);
        for kx in -2..=9i64 {
            for ky in -2..=9i64 {
                let q = HP::new(kx as i128, ky as i128, 2);
                let c = Coord { x: kx as f64 / 2.0, y: ky as f64 / 2.0 };
                let want = locate(&ag, &q) != E;
                acc.evals += 1;
                let got = mono.intersects(&c);
                if got != want {
                    let vertical_above = p.shell.iter().chain(p.holes.iter().flatten()).any(|v| 2 * v.0 == kx);
                    acc.viol(format!("MonotonicPolygons::intersects expected {} got {} (query x {} a vertex x)", want, got, if vertical_above { "equals" } else { "differs from" }), idx, || {
                        w(&format!("query {:?} exact location {}", c, ["interior", "boundary", "exterior"][locate(&ag, &q)]))
                    });
                    return;
                }
            }
        }
    });
    // multipolygon monotone subdivision: pairs of compatible polygons
    let small: Vec<Vec<IP>> = rings(3, 4);
    let mut pairs: Vec<(Poly, Poly)> = vec![];
    for i in 0..small.len() {
        for j in i + 1..small.len() {
            let (a, b) = (Poly { shell: small[i].clone(), holes: vec![] }, Poly { shell: small[j].clone(), holes: vec![] });
            if (i * 31 + j) % (if quick { 23 } else { 3 }) == 0 && polys_compatible(&a, &b) {
                pairs.push((a, b));
            }
        }
    }
    run.stage("monotone-multipolygon", pairs.len(), |idx, acc| {
        let (a, b) = &pairs[idx];
        let mp = MultiPolygon(vec![poly(a), poly(b)]);
        let ag = AG::Polys(vec![a.clone(), b.clone()]);
        acc.evals += 1;
        acc.class("monotone multipolygon".into());
        match guard(|| MonotonicPolygons::from(mp.clone())) {
            Err(e) => acc.viol("monotone_subdivision(MultiPolygon) panic".into(), idx, || json!({"multipolygon": format!("{:?}", mp), "panic": e})),
            Ok(mono) => {
                let total: f64 = mono.subdivisions().iter().map(|m| m.clone().into_polygon().unsigned_area()).sum();
                if (total - (poly_area(a).f() + poly_area(b).f())).abs() > 1e-9 {
                    acc.viol("monotone(MultiPolygon) areas do not sum".into(), idx, || json!({"multipolygon": format!("{:?}", mp), "sum": total}));
                }
                for kx in -2..=6i64 {
                    for ky in -2..=6i64 {
                        let q = HP::new(kx as i128, ky as i128, 2);
                        let c = Coord { x: kx as f64 / 2.0, y: ky as f64 / 2.0 };
                        if mono.intersects(&c) != (locate(&ag, &q) != E) {
                            acc.viol("MonotonicPolygons(MultiPolygon)::intersects wrong".into(), idx, || json!({"multipolygon": format!("{:?}", mp), "query": format!("{:?}", c)}));
                            return;
                        }
                    }
                }
            }
        }
    });
    run.finish()
}

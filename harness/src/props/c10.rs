//! C10 Triangulations and monotone subdivision tile the polygon exactly.
use crate::build::*;
use crate::engine::*;
use crate::enumr::*;
use crate::exact::*;
use geo::algorithm::triangulate_delaunay::DelaunayTriangulationConfig;
use geo::{monotone_subdivision, Area, Coord, Intersects, MapCoords, MonotonicPolygons, MultiPolygon, Polygon, StitchTriangles, Triangle, TriangulateDelaunay, TriangulateEarcut};
use serde_json::json;

fn tri_ip(t: &Triangle<f64>, off: f64) -> Option<[IP; 3]> {
    let f = |c: Coord<f64>| -> Option<IP> {
        let (x, y) = (c.x - off, c.y - off);
        if x.fract() == 0.0 && y.fract() == 0.0 {
            Some((x as i64, y as i64))
        } else {
            None
        }
    };
    Some([f(t.0)?, f(t.1)?, f(t.2)?])
}

/// exact tiling check: the triangles must cover `region` exactly once. `inside_region(q)` is the exact membership.
fn tiling_defect(tris: &[[IP; 3]], region_segs: &[(IP, IP)], inside_region: &dyn Fn(&HP) -> bool) -> Option<String> {
    let mut segs: Vec<(IP, IP)> = region_segs.to_vec();
    for t in tris {
        if area2(&t[..]) == 0 {
            return Some("degenerate triangle".into());
        }
        for i in 0..3 {
            let e = (t[i], t[(i + 1) % 3]);
            if !segs.contains(&e) && !segs.contains(&(e.1, e.0)) {
                segs.push(e);
            }
        }
    }
    let arr = arrangement(&segs, &[]);
    for q in &arr.faces {
        let cnt = tris.iter().filter(|t| ring_pos(&t[..], q) == 2).count();
        let want = if inside_region(q) { 1 } else { 0 };
        if cnt != want {
            return Some(if cnt > want && want == 1 {
                "triangles overlap".into()
            } else if cnt > want {
                "triangle outside the region".into()
            } else {
                "region not covered".into()
            });
        }
    }
    None
}

fn check_tris(acc: &mut Acc, idx: usize, what: &str, p: &Poly, pg: &Polygon<f64>, tris: Result<Vec<Triangle<f64>>, String>, hull_region: bool, off: f64) {
    acc.evals += 1;
    let tris = match tris {
        Ok(t) => t,
        Err(e) => {
            acc.viol(format!("{} failed/panicked", what), idx, || json!({"polygon": format!("{:?}", pg), "error": e}));
            return;
        }
    };
    let w = |msg: &str| json!({"polygon": format!("{:?}", pg), "triangles": format!("{:?}", tris), "detail": msg});
    let mut its: Vec<[IP; 3]> = vec![];
    for t in &tris {
        match tri_ip(t, off) {
            Some(x) => its.push(x),
            None => {
                acc.viol(format!("{} corner is not a polygon vertex (non-lattice)", what), idx, || w(""));
                return;
            }
        }
    }
    let verts: Vec<IP> = p.shell.iter().chain(p.holes.iter().flatten()).cloned().collect();
    if its.iter().any(|t| t.iter().any(|c| !verts.contains(c))) {
        acc.viol(format!("{} corner is not a polygon vertex", what), idx, || w(""));
        return;
    }
    let ag = AG::Polys(vec![p.clone()]);
    let (region_segs, area_want): (Vec<(IP, IP)>, i64) = if hull_region {
        let h = hull(&verts);
        ((0..h.len()).map(|i| (h[i], h[(i + 1) % h.len()])).collect(), area2(&h).abs())
    } else {
        (ag.segs(), area2(&p.shell).abs() - p.holes.iter().map(|h| area2(h).abs()).sum::<i64>())
    };
    let area_got: i64 = its.iter().map(|t| area2(&t[..]).abs()).sum();
    if area_got != area_want {
        acc.viol(format!("{} triangle areas do not sum to the region's area", what), idx, || w(&format!("2*area got {} want {}", area_got, area_want)));
        return;
    }
    let h = hull(&verts);
    let inside: Box<dyn Fn(&HP) -> bool> = if hull_region { Box::new(move |q: &HP| ring_pos(&h, q) == 2) } else { Box::new(move |q: &HP| locate(&ag, q) == I) };
    if let Some(d) = tiling_defect(&its, &region_segs, &*inside) {
        acc.viol(format!("{}: {}", what, d), idx, || w(&d));
    }
}

fn tri_checks(acc: &mut Acc, idx: usize, p: &Poly, touch: &bool, off: f64) {
    let bx = (p.shell.iter().map(|v| v.0).min().unwrap(), p.shell.iter().map(|v| v.0).max().unwrap());
    let by = (p.shell.iter().map(|v| v.1).min().unwrap(), p.shell.iter().map(|v| v.1).max().unwrap());
        let pg0 = poly(p);
        let pg = pg0.map_coords(|c| Coord { x: c.x + off, y: c.y + off });
        acc.class(format!("n{} holes{} touch{} off{}", p.shell.len(), p.holes.len(), touch, off));
        acc.sample(idx, || json!({"polygon": format!("{:?}", pg)}));
        if !touch {
            check_tris(acc, idx, "earcut_triangles", p, &pg, guard(|| pg.earcut_triangles()), false, off);
        }
        check_tris(
            acc,
            idx,
            "constrained_triangulation",
            p,
            &pg,
            guard(|| TriangulateDelaunay::constrained_triangulation(&pg, DelaunayTriangulationConfig::default())).and_then(|r| r.map_err(|e| format!("{:?}", e))),
            false,
            off,
        );
        check_tris(
            acc,
            idx,
            "unconstrained_triangulation",
            p,
            &pg,
            guard(|| TriangulateDelaunay::unconstrained_triangulation(&pg)).and_then(|r| r.map_err(|e| format!("{:?}", e))),
            true,
            off,
        );
        // constrained_outer_triangulation keeps the polygon's edges as constraints and tiles the convex hull
        check_tris(
            acc,
            idx,
            "constrained_outer_triangulation",
            p,
            &pg,
            guard(|| TriangulateDelaunay::constrained_outer_triangulation(&pg, DelaunayTriangulationConfig::default())).and_then(|r| r.map_err(|e| format!("{:?}", e))),
            true,
            off,
        );
        // the deprecated TriangulateSpade trait is a second copy of the same three entry points
        #[allow(deprecated)]
        if idx % 4 < 2 {
            use geo::algorithm::triangulate_spade::SpadeTriangulationConfig;
            use geo::TriangulateSpade;
            check_tris(acc, idx, "TriangulateSpade::constrained_triangulation", p, &pg, guard(|| TriangulateSpade::constrained_triangulation(&pg, SpadeTriangulationConfig::default())).and_then(|r| r.map_err(|e| format!("{:?}", e))), false, off);
            check_tris(acc, idx, "TriangulateSpade::constrained_outer_triangulation", p, &pg, guard(|| TriangulateSpade::constrained_outer_triangulation(&pg, SpadeTriangulationConfig::default())).and_then(|r| r.map_err(|e| format!("{:?}", e))), true, off);
            check_tris(acc, idx, "TriangulateSpade::unconstrained_triangulation", p, &pg, guard(|| TriangulateSpade::unconstrained_triangulation(&pg)).and_then(|r| r.map_err(|e| format!("{:?}", e))), true, off);
        }
        // stitch(constrained Delaunay) has the same area and the same exterior on the half-step lattice (touching rings included)
        {
            acc.evals += 1;
            let r = guard(|| TriangulateDelaunay::constrained_triangulation(&pg, DelaunayTriangulationConfig::default()).map(|t| t.stitch_triangulation()));
            match r {
                Ok(Ok(Ok(mp))) => {
                    let a = mp.unsigned_area();
                    let want = poly_area(p).f();
                    let mut bad = (a - want).abs() > 1e-6;
                    if !bad && off == 0.0 {
                        use geo::CoordinatePosition;
                        for kx in (2 * bx.0 - 3)..=(2 * bx.1 + 3) {
                            for ky in (2 * by.0 - 3)..=(2 * by.1 + 3) {
                                let q = HP::new(kx as i128, ky as i128, 2);
                                let c = Coord { x: kx as f64 / 2.0, y: ky as f64 / 2.0 };
                                let want = locate(&AG::Polys(vec![p.clone()]), &q);
                                let got_out = mp.coordinate_position(&c) == geo::coordinate_position::CoordPos::Outside;
                                if (want == E) != got_out {
                                    bad = true;
                                }
                            }
                        }
                    }
                    if bad {
                        acc.viol(format!("stitch_triangulation(constrained Delaunay) differs from the polygon (area or exterior), holes={} touching={}", p.holes.len(), touch), idx, || json!({"polygon": format!("{:?}", pg), "stitched": format!("{:?}", mp), "area": a, "expected_area": want}));
                    }
                }
                other => acc.viol(format!("stitch_triangulation(constrained Delaunay) failed/panicked, holes={} touching={}", p.holes.len(), touch), idx, || json!({"polygon": format!("{:?}", pg), "result": format!("{:?}", other).chars().take(300).collect::<String>()})),
            }
        }
        // stitch(earcut) has the same area and the same location on the half-step lattice
        if !touch {
            acc.evals += 1;
            // is the ear-cut triangulation conforming (no triangle edge passes through another triangle's vertex)? stitching works on identical edges only
            let ear = guard(|| pg.earcut_triangles()).unwrap_or_default();
            let its: Vec<[IP; 3]> = ear.iter().filter_map(|t| tri_ip(t, off)).collect();
            let conforming = !its.iter().any(|t| (0..3).any(|i| its.iter().any(|u| u.iter().any(|&v| v != t[i] && v != t[(i + 1) % 3] && on_seg_i(t[i], t[(i + 1) % 3], v)))));
            acc.count(if conforming { "ear-cut triangulations that are conforming" } else { "ear-cut triangulations with a T-junction (non-conforming)" }, 1);
            match guard(|| ear.stitch_triangulation()) {
                Ok(Ok(mp)) => {
                    let a = mp.unsigned_area();
                    let want = poly_area(p).f();
                    let mut bad = (a - want).abs() > 1e-6;
                    if !bad && off == 0.0 {
                        use geo::CoordinatePosition;
                        for kx in (2 * bx.0 - 3)..=(2 * bx.1 + 3) {
                            for ky in (2 * by.0 - 3)..=(2 * by.1 + 3) {
                                let q = HP::new(kx as i128, ky as i128, 2);
                                let c = Coord { x: kx as f64 / 2.0, y: ky as f64 / 2.0 };
                                let want = locate(&AG::Polys(vec![p.clone()]), &q);
                                let got = match mp.coordinate_position(&c) {
                                    geo::coordinate_position::CoordPos::Inside => I,
                                    geo::coordinate_position::CoordPos::OnBoundary => B,
                                    _ => E,
                                };
                                // the property asks for the same area; ear-cut may leave a T-junction (a triangle edge through a hole
                                // vertex), which stitches into a self-touching exterior, so only exterior-vs-not is compared
                                if (want == E) != (got == E) {
                                    bad = true;
                                }
                            }
                        }
                    }
                    if bad {
                        let kind = if conforming { "conforming ear-cut triangulation" } else { "ear-cut triangulation with a T-junction: a triangle edge passes through another triangle's vertex" };
                        acc.viol(format!("stitch_triangulation(earcut) differs from the polygon (area or exterior) [{}]", kind), idx, || json!({"polygon": format!("{:?}", pg), "stitched": format!("{:?}", mp), "stitched_area": a, "polygon_area": want}));
                    }
                }
                other => acc.viol("stitch_triangulation failed/panicked".into(), idx, || json!({"polygon": format!("{:?}", pg), "result": format!("{:?}", other)})),
            }
        }
}

fn mono_checks(acc: &mut Acc, idx: usize, p: &Poly, touch: &bool) {
    let bx = (p.shell.iter().map(|v| v.0).min().unwrap(), p.shell.iter().map(|v| v.0).max().unwrap());
    let by = (p.shell.iter().map(|v| v.1).min().unwrap(), p.shell.iter().map(|v| v.1).max().unwrap());
        let pg = poly(p);
        acc.evals += 1;
        acc.class(format!("monotone n{} holes{} touch{}", p.shell.len(), p.holes.len(), touch));
        let pieces = match guard(|| monotone_subdivision([pg.clone()])) {
            Ok(x) => x,
            Err(e) => {
                // how do the rings touch: at a common vertex, or with a vertex of one ring in the interior of an edge of the other (T-junction)
                let tj = p.holes.iter().any(|h| {
                    let on_edge_interior = |v: IP, r: &Vec<IP>| !r.contains(&v) && (0..r.len()).any(|i| on_seg_i(r[i], r[(i + 1) % r.len()], v));
                    h.iter().any(|&v| on_edge_interior(v, &p.shell)) || p.shell.iter().any(|&v| on_edge_interior(v, h))
                });
                let kind = if !*touch { "rings disjoint" } else if tj { "ring vertex in the interior of another ring's edge" } else { "rings share a vertex" };
                acc.viol(format!("monotone_subdivision panic ({})", kind), idx, || json!({"polygon": format!("{:?}", pg), "panic": e}));
                return;
            }
        };
        let w = |msg: &str| json!({"polygon": format!("{:?}", pg), "pieces": format!("{:?}", pieces), "detail": msg});
        acc.sample(idx, || json!({"polygon": format!("{:?}", pg), "pieces": pieces.len()}));
        // areas sum; each piece x-monotone (chains lexicographically increasing)
        let mut total = 0.0;
        let mut tiles: Vec<Vec<IP>> = vec![];
        let mut lattice = true;
        for mpoly in &pieces {
            for chain in [mpoly.top(), mpoly.bot()] {
                if !chain.0.windows(2).all(|w| (w[0].x, w[0].y) < (w[1].x, w[1].y)) {
                    acc.viol("monotone piece chain is not lexicographically increasing".into(), idx, || w(""));
                    return;
                }
            }
            let pp = mpoly.clone().into_polygon();
            total += pp.unsigned_area();
            let ring: Option<Vec<IP>> = pp.exterior().0[..pp.exterior().0.len() - 1].iter().map(|c| if c.x.fract() == 0.0 && c.y.fract() == 0.0 { Some((c.x as i64, c.y as i64)) } else { None }).collect();
            match ring {
                Some(r) => tiles.push(r),
                None => lattice = false,
            }
        }
        if (total - poly_area(p).f()).abs() > 1e-9 {
            acc.viol("monotone pieces' areas do not sum to the polygon's area".into(), idx, || w(&format!("sum {} want {}", total, poly_area(p).f())));
            return;
        }
        // exact tiling by the pieces
        if lattice {
            let ag = AG::Polys(vec![p.clone()]);
            let mut segs = ag.segs();
            for t in &tiles {
                for i in 0..t.len() {
                    let e = (t[i], t[(i + 1) % t.len()]);
                    if e.0 != e.1 && !segs.contains(&e) && !segs.contains(&(e.1, e.0)) {
                        segs.push(e);
                    }
                }
            }
            let arr = arrangement(&segs, &[]);
            for q in &arr.faces {
                let cnt = tiles.iter().filter(|t| ring_pos(t, q) == 2).count();
                let want = if locate(&ag, q) == I { 1 } else { 0 };
                if cnt != want {
                    acc.viol("monotone pieces do not tile the polygon (overlap / outside / gap)".into(), idx, || w(&format!("witness {} {} covered {} times, expected {}", q.fx(), q.fy(), cnt, want)));
                    return;
                }
            }
        } else {
            acc.count("monotone pieces with non-lattice vertices (tiling checked by area only)", 1);
        }
        // point location on the half-step lattice, one step outside the box
        let mono = MonotonicPolygons::from(pg.clone());
        let ag = AG::Polys(vec![p.clone()]);
        for kx in (2 * bx.0 - 4)..=(2 * bx.1 + 4) {
            for ky in (2 * by.0 - 4)..=(2 * by.1 + 4) {
                let q = HP::new(kx as i128, ky as i128, 2);
                let c = Coord { x: kx as f64 / 2.0, y: ky as f64 / 2.0 };
                let want = locate(&ag, &q) != E;
                acc.evals += 1;
                let got = mono.intersects(&c);
                if got != want {
                    let vertical_above = p.shell.iter().chain(p.holes.iter().flatten()).any(|v| 2 * v.0 == kx);
                    acc.viol(format!("MonotonicPolygons::intersects expected {} got {} (query x {} a vertex x)", want, got, if vertical_above { "equals" } else { "differs from" }), idx, || {
                        w(&format!("query {:?} exact location {}", c, ["interior", "boundary", "exterior"][locate(&ag, &q)]))
                    });
                    return;
                }
            }
        }
}

pub fn polys(quick: bool) -> Vec<(Poly, bool)> {
    // (polygon, rings touch each other)
    let mut v: Vec<(Poly, bool)> = vec![];
    for r in rings(3, 8) {
        v.push((Poly { shell: r, holes: vec![] }, false));
    }
    for r in rings(4, 5).into_iter().step_by(if quick { 6 } else { 1 }) {
        v.push((Poly { shell: r, holes: vec![] }, false));
    }
    let shells: Vec<Vec<IP>> = vec![
        vec![(0, 0), (3, 0), (3, 3), (0, 3)],
        vec![(0, 0), (3, 0), (0, 3)],
        vec![(0, 0), (3, 1), (2, 3), (0, 2)],
        vec![(0, 0), (3, 0), (3, 3), (1, 1), (0, 3)],
        vec![(0, 3), (1, 1), (1, 0), (3, 2)],
    ];
    let holes = rings_over(&grid(4), if quick { 3 } else { 4 });
    for p in polys_with_hole(&shells, &holes) {
        let touch = ring_contacts(&p.holes[0], &p.shell).map_or(true, |c| !c.is_empty());
        v.push((p, touch));
    }
    // two holes (free, touching the shell, touching each other) in a 6x4 shell
    for p in super::c05::poly_family(quick).into_iter().filter(|p| p.holes.len() == 2).step_by(if quick { 2 } else { 1 }) {
        let mut touch = false;
        for (i, h) in p.holes.iter().enumerate() {
            touch |= ring_contacts(h, &p.shell).map_or(true, |c| !c.is_empty());
            for g in p.holes.iter().skip(i + 1) {
                touch |= ring_contacts(h, g).map_or(true, |c| !c.is_empty());
            }
        }
        v.push((p, touch));
    }
    // two and three holes with DIFFERENT vertex counts (3..8), in every order, in shells with 4 and 6 vertices: the hole offsets handed to
    // the triangulators depend on the sizes of all earlier rings
    let g3r = rings(3, 8);
    let mut shapes: Vec<Vec<IP>> = vec![];
    for k in 3..=8usize {
        let of_k: Vec<&Vec<IP>> = g3r.iter().filter(|r| r.len() == k).collect();
        if of_k.is_empty() {
            continue;
        }
        shapes.push(of_k[0].clone());
        if !quick || k <= 4 {
            shapes.push(of_k[of_k.len() / 2].clone());
        }
    }
    let slots: [(i64, i64); 3] = [(1, 1), (4, 1), (7, 1)];
    let shells2: Vec<Vec<IP>> = vec![vec![(0, 0), (10, 0), (10, 4), (0, 4)], vec![(0, 0), (10, 0), (11, 2), (10, 4), (0, 4), (-1, 2)]];
    let place = |r: &Vec<IP>, s: (i64, i64)| -> Vec<IP> { r.iter().map(|p| (p.0 + s.0, p.1 + s.1)).collect() };
    let ns = shapes.len();
    let orders2: [(usize, usize); 6] = [(0, 1), (1, 0), (0, 2), (2, 0), (1, 2), (2, 1)];
    let orders3: [[usize; 3]; 6] = [[0, 1, 2], [0, 2, 1], [1, 0, 2], [1, 2, 0], [2, 0, 1], [2, 1, 0]];
    for (si, sh) in shells2.iter().enumerate() {
        for a in 0..ns {
            for b in 0..ns {
                for (oi, o) in orders2.iter().enumerate() {
                    if quick && (a + b + oi + si) % 2 == 1 {
                        continue;
                    }
                    v.push((Poly { shell: sh.clone(), holes: vec![place(&shapes[a], slots[o.0]), place(&shapes[b], slots[o.1])] }, false));
                }
                for c in 0..ns {
                    for (oi, o) in orders3.iter().enumerate() {
                        if (a * 7 + b * 3 + c + oi + si) % (if quick { 11 } else { 2 }) != 0 {
                            continue;
                        }
                        v.push((Poly { shell: sh.clone(), holes: vec![place(&shapes[a], slots[o[0]]), place(&shapes[b], slots[o[1]]), place(&shapes[c], slots[o[2]])] }, false));
                    }
                }
            }
        }
    }
    v
}

pub fn run(mut run: Run) -> i32 {
    let quick = run.ctx.quick();
    run.rule = "every simple lattice polygon (all of G3, G4 up to 5 vertices) and every valid polygon-with-hole over five shells (incl. holes touching the shell), also translated by 1e6: \
        ear-cut (rings not touching), constrained Delaunay, unconstrained Delaunay (tiles the hull), monotone subdivision, stitch(earcut); oracle: corners are polygon vertices, exact area sums, and on every face of the exact arrangement of \
        all triangle and polygon edges the number of covering triangles is 1 inside the region and 0 outside; MonotonicPolygons::intersects == exact location on the half-step lattice; distinct = (algorithm, vertex count, holes, touching)"
        .into();
    run.assumptions = vec!["coordinates returned by the triangulations are lattice values, so exactness is checked in integers".into()];
    let ps = polys(quick);
    let n = ps.len();
    run.extra.insert("polygons".into(), json!(n));
    run.stage("triangulations", n * 2, |idx, acc| {
        let (p, touch) = &ps[idx / 2];
        let off = if idx % 2 == 0 { 0.0 } else { 1e6 };
        tri_checks(acc, idx, p, touch, off);
    });
    // the same polygons scaled by 2^-8 and 2^-12 (exact): vertex spacing 3.9e-3 / 2.4e-4, i.e. between the documented Delaunay snap radius (1e-4) and
    // ordinary sizes - vertices this far apart must stay distinct. Triangles are scaled back exactly and judged on the lattice.
    {
        let sstep = if quick { 4 } else { 1 };
        let subp: Vec<&(Poly, bool)> = ps.iter().step_by(sstep).collect();
        let nsp = subp.len();
        run.stage("triangulations-small-scale", nsp * 2, |idx, acc| {
            let (p, touch) = subp[idx / 2];
            let sc: f64 = if idx % 2 == 0 { 1.0 / 256.0 } else { 1.0 / 4096.0 };
            let pg = poly(p).map_coords(|c| Coord { x: c.x * sc, y: c.y * sc });
            let back = |t: Vec<Triangle<f64>>| -> Vec<Triangle<f64>> { t.into_iter().map(|t| Triangle(Coord { x: t.0.x / sc, y: t.0.y / sc }, Coord { x: t.1.x / sc, y: t.1.y / sc }, Coord { x: t.2.x / sc, y: t.2.y / sc })).collect() };
            acc.class(format!("small-scale n{} holes{} touch{} scale{}", p.shell.len(), p.holes.len(), touch, sc));
            let pg0 = poly(p);
            if !touch {
                check_tris(acc, idx, "earcut_triangles[small scale]", p, &pg0, guard(|| pg.earcut_triangles()).map(back), false, 0.0);
            }
            check_tris(acc, idx, "constrained_triangulation[small scale]", p, &pg0, guard(|| TriangulateDelaunay::constrained_triangulation(&pg, DelaunayTriangulationConfig::default())).and_then(|r| r.map_err(|e| format!("{:?}", e))).map(back), false, 0.0);
            check_tris(acc, idx, "constrained_outer_triangulation[small scale]", p, &pg0, guard(|| TriangulateDelaunay::constrained_outer_triangulation(&pg, DelaunayTriangulationConfig::default())).and_then(|r| r.map_err(|e| format!("{:?}", e))).map(back), true, 0.0);
            check_tris(acc, idx, "unconstrained_triangulation[small scale]", p, &pg0, guard(|| TriangulateDelaunay::unconstrained_triangulation(&pg)).and_then(|r| r.map_err(|e| format!("{:?}", e))).map(back), true, 0.0);
        });
    }
    // monotone subdivision
    run.stage("monotone", n, |idx, acc| {
        let (p, touch) = &ps[idx];
        mono_checks(acc, idx, p, touch);
    });
    // images under (moderate) integer affine maps: oblique edges, no vertical edges left or new ones created, larger coordinates
    {
        let istep = if quick { 5 } else { 1 };
        for f in imaps().into_iter().take(3) {
            let img: Vec<(Poly, bool)> = ps.iter().step_by(istep).map(|(p, t)| (Poly { shell: p.shell.iter().map(|&v| f.ap(v)).collect(), holes: p.holes.iter().map(|h| h.iter().map(|&v| f.ap(v)).collect()).collect() }, *t)).collect();
            let ni = img.len();
            run.stage(&format!("triangulations+monotone affine-image {}", f.name), ni, |idx, acc| {
                let (p, touch) = &img[idx];
                tri_checks(acc, idx, p, touch, 0.0);
                mono_checks(acc, idx, p, touch);
            });
        }
    }
    // multipolygon monotone subdivision: pairs of compatible polygons
    let small: Vec<Vec<IP>> = rings(3, 4);
    let mut pairs: Vec<(Poly, Poly)> = vec![];
    for i in 0..small.len() {
        for j in i + 1..small.len() {
            let (a, b) = (Poly { shell: small[i].clone(), holes: vec![] }, Poly { shell: small[j].clone(), holes: vec![] });
            if (i * 31 + j) % (if quick { 23 } else { 3 }) == 0 && polys_compatible(&a, &b) {
                pairs.push((a, b));
            }
        }
    }
    run.stage("monotone-multipolygon", pairs.len(), |idx, acc| {
        let (a, b) = &pairs[idx];
        let mp = MultiPolygon(vec![poly(a), poly(b)]);
        let ag = AG::Polys(vec![a.clone(), b.clone()]);
        acc.evals += 1;
        acc.class("monotone multipolygon".into());
        match guard(|| MonotonicPolygons::from(mp.clone())) {
            Err(e) => acc.viol("monotone_subdivision(MultiPolygon) panic".into(), idx, || json!({"multipolygon": format!("{:?}", mp), "panic": e})),
            Ok(mono) => {
                let total: f64 = mono.subdivisions().iter().map(|m| m.clone().into_polygon().unsigned_area()).sum();
                if (total - (poly_area(a).f() + poly_area(b).f())).abs() > 1e-9 {
                    acc.viol("monotone(MultiPolygon) areas do not sum".into(), idx, || json!({"multipolygon": format!("{:?}", mp), "sum": total}));
                }
                for kx in -2..=6i64 {
                    for ky in -2..=6i64 {
                        let q = HP::new(kx as i128, ky as i128, 2);
                        let c = Coord { x: kx as f64 / 2.0, y: ky as f64 / 2.0 };
                        if mono.intersects(&c) != (locate(&ag, &q) != E) {
                            acc.viol("MonotonicPolygons(MultiPolygon)::intersects wrong".into(), idx, || json!({"multipolygon": format!("{:?}", mp), "query": format!("{:?}", c)}));
                            return;
                        }
                    }
                }
            }
        }
    });
    // ill-conditioned query points: every point of an ulp window around a point of a long slanted edge (top chain and bottom chain of the piece)
    {
        use crate::bigf::{self, next_up};
        let tris: Vec<[(f64, f64); 3]> = vec![
            [(-12.0, -12.0), (24.0, 24.0), (24.0, -12.0)], // slanted edge is the top chain
            [(-12.0, -12.0), (24.0, 24.0), (-12.0, 24.0)], // slanted edge is the bottom chain
            [(0.1, 0.3), (1234567.9, 7654321.3), (1234567.9, 0.3)],
            [(-7.0, -21.0), (-70.0, -210.0), (0.0, -210.0)],
        ];
        let centres: Vec<(f64, f64)> = vec![(0.5, 0.5), (0.5, 0.5), (617284.0, 3827160.8), (-14.0, -42.0)];
        let w: i64 = if quick { 24 } else { 96 };
        let ww = (w * w) as usize;
        run.stage("monotone-ulp-windows", tris.len() * ww, |idx, acc| {
            let (ti, k) = (idx / ww, (idx % ww) as i64);
            let (i, j) = (k / w - w / 2, k % w - w / 2);
            let c = (next_up(centres[ti].0, i), next_up(centres[ti].1, j));
            let want = bigf::point_in_ring(&tris[ti], c) != 0;
            acc.evals += 1;
            acc.class(format!("monotone ulp window {} inside-or-boundary{}", ti, want));
            acc.sample(idx, || json!({"triangle": format!("{:?}", tris[ti]), "query": [c.0, c.1], "exact": want}));
            // (built per case: the subdivision object is not required to be shareable between threads)
            let t = &tris[ti];
            let mono = MonotonicPolygons::from(Polygon::new(geo::LineString::from(vec![t[0], t[1], t[2], t[0]]), vec![]));
            let got = mono.intersects(&Coord { x: c.0, y: c.1 });
            if got != want {
                acc.viol("MonotonicPolygons::intersects differs from exact point location on an ulp window next to a slanted edge".into(), idx, || json!({"triangle": format!("{:?}", tris[ti]), "query": [c.0, c.1], "bits": format!("{:016x} {:016x}", c.0.to_bits(), c.1.to_bits()), "expected": want, "got": got}));
            }
        });
    }
    // MultiPolygon inputs: member A (optionally with a hole touching its shell at a vertex) x member B translated over a window, kept when the pair is a
    // valid MultiPolygon (interiors disjoint, boundaries meeting at finitely many points): disjoint, interleaving in x, touching vertex-to-vertex,
    // touching vertex-to-edge (T-junction). Constrained Delaunay of the MultiPolygon tiles the union; stitching it back gives the same area and the
    // same exterior; the joint monotone subdivision locates points like the union.
    {
        let g4 = grid(4);
        let sq: Vec<IP> = vec![(0, 0), (3, 0), (3, 3), (0, 3)];
        let mut a_members: Vec<Poly> = vec![];
        for r in rings(3, 5).into_iter().step_by(if quick { 9 } else { 2 }) {
            a_members.push(Poly { shell: r, holes: vec![] });
        }
        // square shell with a triangular hole touching it at a vertex of the shell or in the middle of a side
        for p in polys_with_hole(&[sq.clone()], &rings_over(&g4, 3)).into_iter().filter(|p| ring_contacts(&p.holes[0], &p.shell).map_or(false, |c| !c.is_empty())).step_by(if quick { 5 } else { 1 }) {
            a_members.push(p);
        }
        let b_rings: Vec<Vec<IP>> = rings(3, 4).into_iter().step_by(if quick { 7 } else { 2 }).collect();
        let shifts: Vec<IP> = (-3..=3).flat_map(|x| (-3..=3).map(move |y| (x, y))).collect();
        let (na, nb, nsft) = (a_members.len(), b_rings.len(), shifts.len());
        run.stage("multipolygon-pairs", na * nb * nsft, |idx, acc| {
            let (a, br, sft) = (&a_members[idx / (nb * nsft)], &b_rings[(idx / nsft) % nb], shifts[idx % nsft]);
            let b = Poly { shell: br.iter().map(|p| (p.0 + sft.0, p.1 + sft.1)).collect(), holes: vec![] };
            if !polys_compatible(a, &b) {
                acc.count("candidate pairs that are not a valid MultiPolygon (dropped)", 1);
                return;
            }
            let ag = AG::Polys(vec![a.clone(), b.clone()]);
            let mp = MultiPolygon(vec![poly(a), poly(&b)]);
            // how the two members touch
            let verts_a: Vec<IP> = a.shell.iter().chain(a.holes.iter().flatten()).cloned().collect();
            let on_edge_interior = |v: IP, q: &Poly| std::iter::once(&q.shell).chain(q.holes.iter()).any(|r| !r.contains(&v) && (0..r.len()).any(|i| on_seg_i(r[i], r[(i + 1) % r.len()], v)));
            let tj = b.shell.iter().any(|&v| on_edge_interior(v, a)) || verts_a.iter().any(|&v| on_edge_interior(v, &b)) || a.holes.iter().any(|h| h.iter().any(|&v| !a.shell.contains(&v) && (0..a.shell.len()).any(|i| on_seg_i(a.shell[i], a.shell[(i + 1) % a.shell.len()], v))));
            let shared = b.shell.iter().filter(|v| verts_a.contains(v)).count();
            let kind = if tj { "ring vertex in the interior of another ring's edge" } else if shared > 0 || !a.holes.is_empty() { "rings share a vertex" } else { "rings disjoint" };
            acc.class(format!("multipolygon-pair holes{} {}", a.holes.len(), kind));
            acc.sample(idx, || json!({"multipolygon": format!("{:?}", mp), "contact": kind}));
            let want2 = area2(&a.shell).abs() - a.holes.iter().map(|h| area2(h).abs()).sum::<i64>() + area2(&b.shell).abs();
            // constrained Delaunay of the MultiPolygon and its stitching
            acc.evals += 2;
            match guard(|| TriangulateDelaunay::constrained_triangulation(&mp, DelaunayTriangulationConfig::default())) {
                Ok(Ok(tris)) => {
                    let its: Option<Vec<[IP; 3]>> = tris.iter().map(|t| tri_ip(t, 0.0)).collect();
                    match its {
                        None => acc.viol(format!("constrained_triangulation(MultiPolygon) corner is not a vertex [{}]", kind), idx, || json!({"multipolygon": format!("{:?}", mp)})),
                        Some(its) => {
                            let got2: i64 = its.iter().map(|t| area2(&t[..]).abs()).sum();
                            if got2 != want2 {
                                acc.viol(format!("constrained_triangulation(MultiPolygon) triangle areas do not sum to the area [{}]", kind), idx, || json!({"multipolygon": format!("{:?}", mp), "2*area": got2, "expected": want2}));
                            } else if let Some(d) = tiling_defect(&its, &ag.segs(), &|q: &HP| locate(&ag, q) == I) {
                                acc.viol(format!("constrained_triangulation(MultiPolygon): {} [{}]", d, kind), idx, || json!({"multipolygon": format!("{:?}", mp), "triangles": format!("{:?}", tris)}));
                            }
                        }
                    }
                    match guard(|| tris.stitch_triangulation()) {
                        Ok(Ok(st)) => {
                            let a_st = st.unsigned_area();
                            let mut bad = (a_st - want2 as f64 / 2.0).abs() > 1e-6;
                            if !bad {
                                use geo::CoordinatePosition;
                                for kx in -8..=14i64 {
                                    for ky in -8..=14i64 {
                                        let q = HP::new(kx as i128, ky as i128, 2);
                                        let c = Coord { x: kx as f64 / 2.0, y: ky as f64 / 2.0 };
                                        if (locate(&ag, &q) == E) != (st.coordinate_position(&c) == geo::coordinate_position::CoordPos::Outside) {
                                            bad = true;
                                        }
                                    }
                                }
                            }
                            if bad {
                                acc.viol(format!("stitch_triangulation(constrained Delaunay of a MultiPolygon) differs from the input (area or exterior) [{}]", kind), idx, || json!({"multipolygon": format!("{:?}", mp), "stitched": format!("{:?}", st), "area": a_st, "expected_area": want2 as f64 / 2.0}));
                            }
                        }
                        other => acc.viol(format!("stitch_triangulation(constrained Delaunay of a MultiPolygon) failed/panicked [{}]", kind), idx, || json!({"multipolygon": format!("{:?}", mp), "result": format!("{:?}", other).chars().take(300).collect::<String>()})),
                    }
                }
                other => acc.viol(format!("constrained_triangulation(MultiPolygon) failed/panicked [{}]", kind), idx, || json!({"multipolygon": format!("{:?}", mp), "result": format!("{:?}", other).chars().take(300).collect::<String>()})),
            }
            // joint monotone subdivision
            acc.evals += 1;
            match guard(|| MonotonicPolygons::from(mp.clone())) {
                Err(e) => acc.viol(format!("monotone_subdivision panic ({})", kind), idx, || json!({"multipolygon": format!("{:?}", mp), "panic": e})),
                Ok(mono) => {
                    let total: f64 = mono.subdivisions().iter().map(|m| m.clone().into_polygon().unsigned_area()).sum();
                    if (total - want2 as f64 / 2.0).abs() > 1e-9 {
                        acc.viol(format!("monotone(MultiPolygon) areas do not sum [{}]", kind), idx, || json!({"multipolygon": format!("{:?}", mp), "sum": total, "expected": want2 as f64 / 2.0}));
                        return;
                    }
                    for kx in -8..=14i64 {
                        for ky in -8..=14i64 {
                            let q = HP::new(kx as i128, ky as i128, 2);
                            let c = Coord { x: kx as f64 / 2.0, y: ky as f64 / 2.0 };
                            if mono.intersects(&c) != (locate(&ag, &q) != E) {
                                acc.viol(format!("MonotonicPolygons(MultiPolygon)::intersects wrong [{}]", kind), idx, || json!({"multipolygon": format!("{:?}", mp), "query": format!("{:?}", c)}));
                                return;
                            }
                        }
                    }
                }
            }
        });
    }
    // deeply nested rings (shell, hole, island, hole, island ...: up to five levels) triangulated member by member and stitched back with the triangle list in
    // every rotation, reversed, and interleaved: the nesting must be recovered whatever ring the stitcher happens to build first
    {
        let sq = |lo: f64, hi: f64| geo::LineString::from(vec![(lo, lo), (hi, lo), (hi, hi), (lo, hi), (lo, lo)]);
        let tri = |lo: f64, hi: f64| geo::LineString::from(vec![(lo, lo), (hi, lo), (lo + 1.0, hi), (lo, lo)]);
        let nests: Vec<(&str, Vec<Polygon<f64>>)> = vec![
            ("squares 3 members", vec![Polygon::new(sq(0.0, 16.0), vec![sq(2.0, 14.0)]), Polygon::new(sq(4.0, 12.0), vec![sq(6.0, 10.0)]), Polygon::new(sq(7.0, 9.0), vec![])]),
            ("squares 2 members", vec![Polygon::new(sq(0.0, 16.0), vec![sq(2.0, 14.0)]), Polygon::new(sq(4.0, 12.0), vec![sq(6.0, 10.0)])]),
            ("squares, innermost first", vec![Polygon::new(sq(7.0, 9.0), vec![]), Polygon::new(sq(4.0, 12.0), vec![sq(6.0, 10.0)]), Polygon::new(sq(0.0, 16.0), vec![sq(2.0, 14.0)])]),
            ("island inscribed in a hole (touching it in four points)", vec![Polygon::new(sq(0.0, 12.0), vec![sq(2.0, 10.0)]), Polygon::new(geo::LineString::from(vec![(6.0, 2.0), (10.0, 6.0), (6.0, 10.0), (2.0, 6.0), (6.0, 2.0)]), vec![])]),
            ("inscribed island listed first", vec![Polygon::new(geo::LineString::from(vec![(6.0, 2.0), (10.0, 6.0), (6.0, 10.0), (2.0, 6.0), (6.0, 2.0)]), vec![]), Polygon::new(sq(0.0, 12.0), vec![sq(2.0, 10.0)])]),
            ("island inscribed in a hole, with its own hole", vec![Polygon::new(sq(0.0, 12.0), vec![sq(2.0, 10.0)]), Polygon::new(geo::LineString::from(vec![(6.0, 2.0), (10.0, 6.0), (6.0, 10.0), (2.0, 6.0), (6.0, 2.0)]), vec![sq(5.0, 7.0)])]),
            ("island touching its hole in two points", vec![Polygon::new(sq(0.0, 12.0), vec![sq(2.0, 10.0)]), Polygon::new(geo::LineString::from(vec![(6.0, 2.0), (8.0, 6.0), (6.0, 10.0), (4.0, 6.0), (6.0, 2.0)]), vec![])]),
            ("triangles in squares", vec![Polygon::new(sq(0.0, 20.0), vec![tri(1.0, 18.0)]), Polygon::new(tri(2.5, 12.0), vec![sq(4.0, 6.0)]), Polygon::new(sq(4.5, 5.5), vec![])]),
            ("two islands side by side", vec![Polygon::new(sq(0.0, 20.0), vec![sq(1.0, 19.0)]), Polygon::new(geo::LineString::from(vec![(2.0, 2.0), (9.0, 2.0), (9.0, 9.0), (2.0, 9.0), (2.0, 2.0)]), vec![geo::LineString::from(vec![(3.0, 3.0), (8.0, 3.0), (8.0, 8.0), (3.0, 8.0), (3.0, 3.0)])]), Polygon::new(geo::LineString::from(vec![(11.0, 11.0), (18.0, 11.0), (18.0, 18.0), (11.0, 18.0), (11.0, 11.0)]), vec![geo::LineString::from(vec![(12.0, 12.0), (17.0, 12.0), (17.0, 17.0), (12.0, 17.0), (12.0, 12.0)])]), Polygon::new(sq(4.0, 7.0), vec![]), Polygon::new(sq(13.0, 16.0), vec![])]),
        ];
        let lists: Vec<(String, Vec<Triangle<f64>>, f64, usize)> = nests
            .iter()
            .flat_map(|(name, members)| {
                let ear: Vec<Triangle<f64>> = members.iter().flat_map(|m| m.earcut_triangles()).collect();
                let want: f64 = members.iter().map(|m| m.unsigned_area()).sum();
                let mut v = vec![(format!("{} / ear-cut per member", name), ear, want, members.len())];
                if let Ok(cdt) = TriangulateDelaunay::constrained_triangulation(&MultiPolygon(members.clone()), DelaunayTriangulationConfig::default()) {
                    v.push((format!("{} / constrained Delaunay of the MultiPolygon", name), cdt, want, members.len()));
                }
                v
            })
            .collect();
        let maxlen = lists.iter().map(|l| l.1.len()).max().unwrap_or(0);
        run.stage("stitch-nested-rings-every-rotation", lists.len() * maxlen * 3, |idx, acc| {
            let (name, tris, want, nmem) = &lists[idx / (maxlen * 3)];
            let (rot, mode) = ((idx / 3) % maxlen, idx % 3);
            if rot >= tris.len() {
                return;
            }
            let mut t: Vec<Triangle<f64>> = tris[rot..].iter().chain(tris[..rot].iter()).cloned().collect();
            match mode {
                1 => t.reverse(),
                2 => {
                    // interleave the two halves
                    let h = t.len() / 2;
                    let (a, b) = t.split_at(h);
                    let mut z = vec![];
                    for i in 0..b.len() {
                        if i < a.len() {
                            z.push(a[i]);
                        }
                        z.push(b[i]);
                    }
                    t = z;
                }
                _ => {}
            }
            acc.evals += 1;
            acc.class(format!("stitch nested: {} mode{}", name, mode));
            match guard(|| t.stitch_triangulation()) {
                Ok(Ok(mp)) => {
                    let a = mp.unsigned_area();
                    let holes: usize = mp.0.iter().map(|p| p.interiors().len()).sum();
                    // C10 fixes the area; how rings that touch in points are grouped into members and holes is not fixed (an island touching its hole in four
                    // points may come back as four small holes of one member), so the member count is only recorded
                    acc.count(if mp.0.len() == *nmem { "stitch nested: same member count" } else { "stitch nested: other grouping of touching rings" }, 1);
                    if (a - want).abs() > 1e-9 {
                        acc.viol("stitch_triangulation of nested rings: area differs from the input".into(), idx, || {
                            json!({"input": name, "rotation": rot, "mode": mode, "stitched": format!("{:?}", mp), "area": a, "expected_area": want, "members": mp.0.len(), "expected_members": nmem, "holes": holes})
                        });
                    }
                }
                other => acc.viol("stitch_triangulation of nested rings failed/panicked".into(), idx, || json!({"input": name, "rotation": rot, "mode": mode, "result": format!("{:?}", other).chars().take(300).collect::<String>()})),
            }
        });
    }
    // larger hand-picked polygons with several kinds of contact at once (a hole vertex on a vertical edge of another hole, a hole vertex on the shell's
    // top edge): every translation on a 3x3 window and the four axis reflections
    {
        let picked: Vec<Poly> = vec![
            Poly { shell: vec![(4, 1), (9, 5), (12, 12), (10, 11), (3, 11), (4, 9)], holes: vec![vec![(7, 6), (8, 8), (9, 11)], vec![(5, 6), (6, 5), (7, 5), (7, 7), (6, 7)]] },
            Poly { shell: vec![(0, 0), (12, 0), (12, 12), (0, 12)], holes: vec![vec![(7, 6), (8, 8), (10, 9)], vec![(5, 6), (6, 5), (7, 5), (7, 7), (6, 7)]] },
            Poly { shell: vec![(0, 0), (12, 0), (12, 12), (0, 12)], holes: vec![vec![(7, 6), (9, 7), (9, 9)], vec![(5, 5), (7, 5), (7, 7), (5, 7)]] },
            Poly { shell: vec![(0, 0), (12, 0), (12, 12), (0, 12)], holes: vec![vec![(5, 6), (3, 7), (3, 9)], vec![(5, 5), (7, 5), (7, 7), (5, 7)]] },
        ];
        assert!(picked.iter().all(poly_valid), "picked polygon invalid");
        let mut all: Vec<Poly> = vec![];
        for p in &picked {
            for refl in 0..4 {
                let f = |v: &IP| -> IP { (if refl & 1 == 1 { 12 - v.0 } else { v.0 }, if refl & 2 == 2 { 12 - v.1 } else { v.1 }) };
                let fix = |r: &Vec<IP>| -> Vec<IP> { let m: Vec<IP> = r.iter().map(f).collect(); if area2(&m) < 0 { reverse_ring(&m) } else { m } };
                let q = Poly { shell: fix(&p.shell), holes: p.holes.iter().map(|h| reverse_ring(&fix(h))).collect() };
                if poly_valid(&q) {
                    all.push(q);
                }
            }
        }
        run.stage("monotone-picked-polygons", all.len(), |idx, acc| {
            mono_checks(acc, idx, &all[idx], &true);
        });
    }
    run.finish()
}

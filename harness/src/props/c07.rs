//! C07 Euclidean distance is the true minimum distance.
use crate::build::*;
use crate::engine::*;
use crate::enumr::*;
use geo::Geometry;
use crate::exact::*;
use crate::ops::*;
use serde_json::json;

fn feature_kind(a: &AG, b: &AG, d2: Rat) -> &'static str {
    if d2.is_zero() {
        return "intersecting";
    }
    // vertex-vertex if some pair of vertices attains the minimum
    let (ca, cb) = (a.coords(), b.coords());
    for p in &ca {
        for q in &cb {
            let dx = (p.0 - q.0) as i128;
            let dy = (p.1 - q.1) as i128;
            if Rat::new(dx * dx + dy * dy, 1) == d2 {
                return "vertex-vertex";
            }
        }
    }
    "vertex-edge"
}

fn check_pair(acc: &mut Acc, idx: usize, a: &Shape, b: &Shape, tag: &str) {
    let d2 = match dist2(&a.ag, &b.ag) {
        Some(d) => d,
        None => return,
    };
    let kind = feature_kind(&a.ag, &b.ag, d2);
    acc.class(format!("{}{}x{} {}", tag, a.ty(), b.ty(), kind));
    acc.sample(idx, || json!({"a": a.wkt(), "b": b.wkt(), "exact_dist2": format!("{}/{}", d2.n, d2.d)}));
    let ab = guard(|| distance_concrete(&a.g, &b.g));
    let ba = guard(|| distance_concrete(&b.g, &a.g));
    let en = guard(|| distance_enum(&a.g, &b.g));
    acc.evals += 3;
    let (ab, ba, en) = match (ab, ba, en) {
        (Ok(x), Ok(y), Ok(z)) => (x, y, z),
        (x, y, z) => {
            acc.viol(format!("distance {}{}x{} panic", tag, a.ty(), b.ty()), idx, || {
                json!({"a": a.wkt(), "b": b.wkt(), "results": format!("{:?} {:?} {:?}", x, y, z)})
            });
            return;
        }
    };
    let wit = || json!({"a": a.wkt(), "b": b.wkt(), "exact_dist2": format!("{}/{}", d2.n, d2.d), "exact": d2.f().sqrt(), "got_ab": ab, "got_ba": ba, "got_enum": en});
    if d2.is_zero() {
        if ab != 0.0 {
            acc.viol(format!("distance {}{}x{} {} expected exactly 0 got nonzero", tag, a.ty(), b.ty(), kind), idx, wit);
        }
    } else {
        let rel = (ab * ab - d2.f()).abs() / d2.f();
        acc.maxf("relative error of distance^2", rel);
        if !(rel <= 1e-12) || ab <= 0.0 {
            let dir = if ab == 0.0 { "got 0" } else if ab * ab > d2.f() { "too large" } else { "too small" };
            acc.viol(format!("distance {}{}x{} {} {}", tag, a.ty(), b.ty(), kind, dir), idx, wit);
        }
    }
    // the f32 instantiation (lattice coordinates are exact in f32): same rule, f32 rounding (affine images with large coordinates excluded)
    if tag.is_empty() && idx % 2 == 0 {
        acc.evals += 1;
        match guard(|| distance_f32(&to_f32(&a.g), &to_f32(&b.g))) {
            Err(e) => acc.viol(format!("distance<f32> {}x{} panic", a.ty(), b.ty()), idx, || json!({"a": a.wkt(), "b": b.wkt(), "panic": e})),
            Ok(d32) => {
                let d = d32 as f64;
                let bad = if d2.is_zero() { d != 0.0 } else { !(((d * d - d2.f()).abs() / d2.f()) <= 2e-6) || d <= 0.0 };
                if bad {
                    acc.viol(format!("distance<f32> {}x{} {} wrong", a.ty(), b.ty(), kind), idx, || json!({"a": a.wkt(), "b": b.wkt(), "exact": d2.f().sqrt(), "got_f32": d32}));
                }
            }
        }
    }
    // exact power-of-two scalings of both operands (2^-30 and 2^30): the distance must be the scaled exact distance (no absolute threshold anywhere)
    if tag.is_empty() && idx % 3 == 0 {
        for sc in [1.0 / 1073741824.0, 1073741824.0] {
            acc.evals += 1;
            let (sa, sb) = (map_geom_f(&a.g, &|c| geo::Coord { x: c.x * sc, y: c.y * sc }), map_geom_f(&b.g, &|c| geo::Coord { x: c.x * sc, y: c.y * sc }));
            match guard(|| distance_concrete(&sa, &sb)) {
                Err(e) => acc.viol(format!("distance {}x{} panic at scale {:e}", a.ty(), b.ty(), sc), idx, || json!({"a": a.wkt(), "b": b.wkt(), "panic": e})),
                Ok(d) => {
                    let want2 = d2.f() * sc * sc;
                    let bad = if d2.is_zero() { d != 0.0 } else { !(((d * d - want2).abs() / want2) <= 1e-12) };
                    if bad {
                        acc.viol(format!("distance {}x{} {} wrong at scale 2^{}", a.ty(), b.ty(), kind, if sc < 1.0 { -30 } else { 30 }), idx, || json!({"a": a.wkt(), "b": b.wkt(), "scale": sc, "exact": (want2).sqrt(), "got": d}));
                    }
                }
            }
        }
    }
    // the deprecated EuclideanDistance trait has its own impl per type pair: same quantity, same rule
    if idx % 2 == 1 {
        acc.evals += 1;
        match guard(|| distance_legacy(&a.g, &b.g)) {
            Err(e) => acc.viol(format!("euclidean_distance (deprecated trait) {}{}x{} panic", tag, a.ty(), b.ty()), idx, || json!({"a": a.wkt(), "b": b.wkt(), "panic": e})),
            Ok(d) => {
                let bad = if d2.is_zero() { d != 0.0 } else { !(((d * d - d2.f()).abs() / d2.f()) <= 1e-12) || d <= 0.0 };
                if bad {
                    acc.viol(format!("euclidean_distance (deprecated trait) {}{}x{} {} wrong", tag, a.ty(), b.ty(), kind), idx, || json!({"a": a.wkt(), "b": b.wkt(), "exact": d2.f().sqrt(), "got": d, "Euclidean.distance": ab}));
                }
            }
        }
    }
    // symmetric / the same for every wrapping: by value (-0.0 and 0.0 are the same distance)
    if !(ab == ba) {
        acc.viol(format!("distance asymmetric {}{}x{}", tag, a.ty(), b.ty()), idx, wit);
    }
    if !(ab == en) {
        acc.viol(format!("distance enum!=concrete {}{}x{}", tag, a.ty(), b.ty()), idx, wit);
    }
}

pub fn run(mut run: Run) -> i32 {
    let mut cfg = super::c01::cfg(&run.ctx);
    if run.ctx.quick() {
        cfg.mls_stride = 60;
        cfg.mls3_stride = 9;
        cfg.mpg_stride = 20;
    }
    let shapes = families(&cfg);
    let n = shapes.len();
    run.rule = "every ordered pair of the lattice families through every concrete Distance impl; exact rational minimum distance \
        (0 iff the exact DE-9IM says they intersect); d(a,b)==d(b,a) bitwise; enum == concrete; all representation variants agree; \
        donut family with the partner inside / touching the hole; distinct = (type pair, closest-feature kind)"
        .into();
    run.assumptions = vec!["integer lattice alphabet; tolerance 1e-12 relative on distance^2; exactly 0.0 required when the operands intersect".into()];
    run.stage("pairs", n * n, |idx, acc| {
        check_pair(acc, idx, &shapes[idx / n], &shapes[idx % n], "");
    });
    // images under integer affine maps (exact distance recomputed on the image): oblique and nearly parallel edges, large coordinates
    {
        let step = run.ctx.pick(6, 2);
        let sub: Vec<&Shape> = shapes.iter().step_by(step).collect();
        let ns = sub.len();
        for f in &imaps() {
            let img: Vec<Shape> = sub.iter().map(|s| map_shape(s, f)).collect();
            run.stage(&format!("pairs-affine-image {}", f.name), ns * ns, |idx, acc| {
                check_pair(acc, idx, &img[idx / ns], &img[idx % ns], "[affine image] ");
            });
        }
    }
    if !run.ctx.quick() {
        let g4 = families(&super::c01::cfg_g4());
        let n4 = g4.len();
        run.stage("pairs-G4", n4 * n4, |idx, acc| {
            check_pair(acc, idx, &g4[idx / n4], &g4[idx % n4], "[G4]");
        });
    }
    // far pairs of rings with 7 and 8 vertices (line strings and polygons): more than 6 segments per operand, so the segment R-tree has several nodes,
    // and separations well above 1
    {
        let big: Vec<Vec<IP>> = rings(3, 8).into_iter().filter(|r| r.len() >= 7).step_by(if run.ctx.quick() { 3 } else { 1 }).collect();
        let shifts: Vec<IP> = vec![(4, 1), (5, -3), (-6, 2), (3, 7), (-4, -5), (9, 0), (0, -8), (7, 7)];
        let (nb, nsft) = (big.len(), shifts.len());
        run.stage("far-pairs-many-segments", nb * nb * nsft, |idx, acc| {
            let (ra, rb, sft) = (&big[idx / (nb * nsft)], &big[(idx / nsft) % nb], shifts[idx % nsft]);
            let rb: Vec<IP> = rb.iter().map(|p| (p.0 + sft.0, p.1 + sft.1)).collect();
            let (pa, pb) = (Poly { shell: ra.clone(), holes: vec![] }, Poly { shell: rb.clone(), holes: vec![] });
            let mk = |as_poly: bool, r: &Vec<IP>, p: &Poly| -> Shape {
                if as_poly {
                    Shape::new(AG::Polys(vec![p.clone()]), Geometry::Polygon(poly(p)), "FAR")
                } else {
                    Shape::new(AG::Lines(vec![close(r)]), Geometry::LineString(ring_ls(r)), "FAR")
                }
            };
            let v = idx % 4;
            check_pair(acc, idx, &mk(v & 1 == 1, ra, &pa), &mk(v & 2 == 2, &rb, &pb), "[far] ");
        });
    }
    // inside-hole family: donuts on the doubled lattice with every doubled G3 shape
    let dbl = |p: IP| (2 * p.0, 2 * p.1);
    let donuts: Vec<Poly> = vec![
        Poly { shell: vec![(-2, -2), (6, -2), (6, 6), (-2, 6)], holes: vec![vec![(-1, -1), (5, -1), (5, 5), (-1, 5)]] },
        Poly { shell: vec![(-2, -2), (6, -2), (6, 6), (-2, 6)], holes: vec![vec![(0, 0), (4, 0), (4, 4), (0, 4)]] },
        Poly { shell: vec![(-4, -4), (12, -4), (-4, 12)], holes: vec![vec![(-1, -1), (6, -1), (-1, 6)]] },
        Poly { shell: vec![(-2, -2), (6, -2), (6, 6), (-2, 6)], holes: vec![vec![(-1, -1), (5, -1), (5, 2), (-1, 2)], vec![(-1, 3), (5, 3), (5, 5), (-1, 5)]] },
        Poly { shell: vec![(-2, -2), (6, -2), (6, 6), (-2, 6)], holes: vec![vec![(-1, 1), (2, -1), (5, 1), (5, 5), (-1, 5)]] },
        Poly { shell: vec![(-2, -2), (7, -2), (7, 7), (-2, 7)], holes: vec![vec![(-1, -1), (3, -1), (3, 3), (-1, 3)]] },
    ];
    for d in &donuts {
        assert!(poly_valid(d), "donut family member invalid");
    }
    let mut dshapes: Vec<Shape> = vec![];
    for d in &donuts {
        dshapes.push(Shape::new(AG::Polys(vec![d.clone()]), geo::Geometry::Polygon(poly(d)), "DONUT"));
        dshapes.push(Shape::new(
            AG::Polys(vec![d.clone()]),
            geo::Geometry::MultiPolygon(geo::MultiPolygon(vec![poly(d)])),
            "DONUT",
        ));
    }
    let inner: Vec<Shape> = shapes
        .iter()
        .filter(|s| !matches!(s.fam, "PGH" | "GCpt" | "GCln" | "GCpg"))
        .map(|s| {
            let ag = s.ag.map(&dbl);
            use geo::MapCoords;
            Shape::new(ag, map_geom_f(&s.g, &|c| geo::Coord { x: 2.0 * c.x, y: 2.0 * c.y }), s.fam)
        })
        .collect();
    // polygons that have holes themselves, sitting in the hole of a donut (both operands with interior rings, in both orders)
    let mut inner = inner;
    for (shell, hole) in [
        (vec![(0, 0), (4, 0), (4, 4), (0, 4)], vec![(1, 1), (3, 1), (3, 3), (1, 3)]),
        (vec![(0, 0), (4, 0), (0, 4)], vec![(1, 1), (2, 1), (1, 2)]),
        (vec![(0, 1), (4, 1), (4, 4), (0, 4)], vec![(1, 2), (3, 2), (3, 3), (1, 3)]),
        (vec![(1, 0), (4, 2), (2, 4), (0, 3)], vec![(2, 2), (3, 2), (2, 3)]),
    ] {
        let p = Poly { shell, holes: vec![hole] };
        assert!(poly_valid(&p), "inner polygon with a hole invalid");
        inner.push(Shape::new(AG::Polys(vec![p.clone()]), geo::Geometry::Polygon(poly(&p)), "PGHin"));
        inner.push(Shape::new(AG::Polys(vec![p.clone()]), geo::Geometry::MultiPolygon(geo::MultiPolygon(vec![poly(&p)])), "PGHin"));
    }
    let (nd, ni) = (dshapes.len(), inner.len());
    run.stage("inside-hole", nd * ni * 2, |idx, acc| {
        let (d, s) = (&dshapes[(idx / 2) / ni], &inner[(idx / 2) % ni]);
        if idx % 2 == 0 {
            check_pair(acc, idx, d, s, "[hole]");
        } else {
            check_pair(acc, idx, s, d, "[hole]");
        }
    });
    // separations whose square leaves the floating-point range although the distance does not (2^520 / 2^-601; f32 2^64 / 2^-80): point-only and
    // point-to-segment pairs on a 3x3 lattice scaled by an exact power of two
    {
        let pts: Vec<IP> = (0..9).map(|k| (k / 3, k % 3)).collect();
        run.stage("extreme-magnitudes", 9 * 9 * 9 * 2, |idx, acc| {
            let (p, a, b) = (pts[idx / 2 % 9], pts[(idx / 2 / 9) % 9], pts[idx / 2 / 81]);
            let huge = idx % 2 == 1;
            acc.class(format!("extreme {} {}", if huge { "2^520" } else { "2^-520" }, if a == b { "point-point" } else { "point-segment" }));
            let want2 = if a == b { Rat::int((p.0 - a.0).pow(2) + (p.1 - a.1).pow(2)) } else { d2_hp_seg(&HP::int(p), a, b) };
            let want = want2.f().sqrt();
            macro_rules! go {
                ($t:ty, $e:expr, $es:expr, $tol:expr) => {{
                    let sc: $t = (2.0 as $t).powi(if huge { $e } else { -$es });
                    let cv = |q: IP| geo::Coord::<$t> { x: q.0 as $t * sc, y: q.1 as $t * sc };
                    let pt = geo::Point(cv(p));
                    let forms: Vec<(&str, Result<$t, String>)> = if a == b {
                        let q = geo::Point(cv(a));
                        vec![
                            ("Point x Point", guard(|| geo::Distance::distance(&geo::Euclidean, &pt, &q))),
                            ("Point x MultiPoint", guard(|| geo::Distance::distance(&geo::Euclidean, &pt, &geo::MultiPoint(vec![q])))),
                            ("Geometry x Geometry", guard(|| geo::Distance::distance(&geo::Euclidean, &geo::Geometry::Point(pt), &geo::Geometry::Point(q)))),
                            ("GeometryCollection x Point", guard(|| geo::Distance::distance(&geo::Euclidean, &geo::GeometryCollection(vec![geo::Geometry::Point(q)]), &pt))),
                        ]
                    } else {
                        let line = geo::Line::new(cv(a), cv(b));
                        vec![
                            ("Point x Line", guard(|| geo::Distance::distance(&geo::Euclidean, &pt, &line))),
                            ("Line x Point", guard(|| geo::Distance::distance(&geo::Euclidean, &line, &pt))),
                            ("Point x LineString", guard(|| geo::Distance::distance(&geo::Euclidean, &pt, &geo::LineString::from(vec![cv(a), cv(b)])))),
                        ]
                    };
                    acc.evals += forms.len() as u64;
                    for (name, got) in forms {
                        let ok = match &got {
                            Ok(d) => {
                                let d = *d as f64 / sc as f64;
                                if want2.is_zero() { d == 0.0 } else { (d - want).abs() <= $tol * want }
                            }
                            Err(_) => false,
                        };
                        if !ok {
                            acc.viol(format!("distance<{}> {} wrong at scale 2^{}", stringify!($t), name, if huge { $e } else { -$es }), idx, || {
                                json!({"p": [p.0, p.1], "a": [a.0, a.1], "b": [b.0, b.1], "scale": format!("2^{}", if huge { $e } else { -$es }), "expected_unscaled": want, "got": format!("{:?}", got)})
                            });
                        }
                    }
                }};
            }
            go!(f64, 520, 601, 1e-12);
            go!(f32, 64, 80, 1e-5);
        });
    }
    // variants: every representation of the same point sets gives the same value
    let vstride = run.ctx.pick(11, 3);
    let base: Vec<&Shape> =
        shapes.iter().filter(|s| !matches!(s.fam, "RC" | "TR" | "GCpt" | "GCln" | "GCpg" | "LSc")).step_by(vstride).collect();
    let vars: Vec<Vec<(String, geo::Geometry<f64>)>> = base.iter().map(|s| variants(&s.ag, false)).collect();
    let nb = base.len();
    run.stage("variants", nb * nb, |idx, acc| {
        let (i, j) = (idx / nb, idx % nb);
        let d2 = match dist2(&base[i].ag, &base[j].ag) {
            Some(d) => d,
            None => return,
        };
        for (ta, ga) in &vars[i] {
            for (tb, gb) in &vars[j] {
                acc.evals += 1;
                let got = guard(|| distance_concrete(ga, gb));
                let ok = match &got {
                    Ok(v) => {
                        if d2.is_zero() {
                            *v == 0.0
                        } else {
                            (v * v - d2.f()).abs() / d2.f() <= 1e-12
                        }
                    }
                    Err(_) => false,
                };
                acc.class(format!("var {}x{} {}", ta, tb, if d2.is_zero() { "zero" } else { "pos" }));
                if !ok {
                    acc.viol(format!("distance[variant] {}x{} {}", ta, tb, if d2.is_zero() { "expected 0" } else { "wrong value" }), idx, || {
                        json!({"a": format!("{:?}", ga), "b": format!("{:?}", gb), "exact_dist2": format!("{}/{}", d2.n, d2.d), "got": format!("{:?}", got)})
                    });
                }
            }
        }
    });
    run.finish()
}

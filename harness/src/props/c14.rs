//! C14 Validation accepts exactly the well-formed geometries.
use crate::build::*;
use crate::engine::*;
use crate::enumr::*;
use crate::exact::*;
use geo::algorithm::validation::{InvalidMultiPolygon, InvalidPolygon, RingRole, Validation};
use geo::{Coord, Geometry, GeometryCollection, Line, LineString, MultiLineString, MultiPoint, MultiPolygon, Point, Polygon, Rect, Triangle};
use serde_json::json;

/// closed coordinate list -> unclosed vertex list with consecutive repeats removed (the curve it traces)
fn trace(closed: &[IP]) -> Vec<IP> {
    let mut v: Vec<IP> = vec![];
    for &p in closed {
        if v.last() != Some(&p) {
            v.push(p);
        }
    }
    if v.len() > 1 && v.first() == v.last() {
        v.pop();
    }
    v
}
fn ring_ok(closed: &[IP]) -> bool {
    // at least four coordinates, simple closed curve with non-zero area
    closed.len() >= 4 && simple_ring(&trace(closed))
}
/// literal transcription of C14 for a polygon given by closed rings (lattice coordinates, hence finite)
fn polygon_ok(shell: &[IP], holes: &[Vec<IP>]) -> bool {
    if !ring_ok(shell) || !holes.iter().all(|h| ring_ok(h)) {
        return false;
    }
    let p = Poly { shell: trace(shell), holes: holes.iter().map(|h| trace(h)).collect() };
    poly_valid_c14(&p)
}

fn check_polygon(acc: &mut Acc, idx: usize, shell: &[IP], holes: &[Vec<IP>], tag: &str) {
    let pg = Polygon::new(ls(shell), holes.iter().map(|h| ls(h)).collect());
    // the coordinates geo sees (Polygon::new closes the rings)
    let cs: Vec<IP> = pg.exterior().0.iter().map(|c| (c.x as i64, c.y as i64)).collect();
    let chs: Vec<Vec<IP>> = pg.interiors().iter().map(|r| r.0.iter().map(|c| (c.x as i64, c.y as i64)).collect()).collect();
    let want = polygon_ok(&cs, &chs);
    // an EMPTY interior ring: geo treats it as absent, the wording of C14 ("every ring has at least four coordinates") would reject it. Only polygons
    // that are invalid anyway are compared (then every reported error must still name real rings by their positions, the empty one included)
    if chs.iter().any(|h| h.is_empty()) {
        let nonempty: Vec<Vec<IP>> = chs.iter().filter(|h| !h.is_empty()).cloned().collect();
        if polygon_ok(&cs, &nonempty) {
            acc.count("dropped_out_of_domain (valid except for an empty interior ring)", 1);
            return;
        }
    }
    // connectedness is not part of C14's wording: only compare where both notions agree
    if want && !holes.is_empty() {
        let p = Poly { shell: trace(&cs), holes: chs.iter().map(|h| trace(h)).collect() };
        if !poly_interior_connected(&p) {
            acc.count("dropped_out_of_domain (valid per C14 wording but interior disconnected)", 1);
            return;
        }
    }
    acc.evals += 2;
    let got = guard(|| (pg.is_valid(), pg.validation_errors()));
    let (valid, errs) = match got {
        Ok(x) => x,
        Err(e) => {
            acc.viol(format!("Polygon::is_valid panic {}", tag), idx, || json!({"polygon": format!("{:?}", pg), "panic": e}));
            return;
        }
    };
    let why = if want {
        "valid".to_string()
    } else if !ring_ok(&cs) {
        let t = trace(&cs);
        if cs.len() < 4 || t.len() < 3 { "shell-too-few".into() } else if area2(&t) == 0 { "shell-zero-area".into() } else { "shell-not-simple".into() }
    } else if !chs.iter().all(|h| ring_ok(h)) {
        "hole-ring-bad".into()
    } else {
        "ring-arrangement".into()
    };
    acc.class(format!("{} {} n{} holes{}", tag, why, cs.len(), chs.len()));
    acc.sample(idx, || json!({"polygon": format!("{:?}", pg), "expected_valid": want, "class": why}));
    let wit = || json!({"polygon": format!("{:?}", pg), "expected_valid": want, "class": why, "is_valid": valid, "errors": format!("{:?}", errs)});
    if valid != want {
        acc.viol(format!("Polygon::is_valid expected {} got {} ({}) {}", want, valid, why, tag), idx, wit);
    }
    if errs.is_empty() != valid {
        acc.viol(format!("validation_errors().is_empty() != is_valid {}", tag), idx, wit);
    }
    // the same polygon written differently: at the exact scales 2^-30 and 2^30, in f32 (small lattice values are exact), with zero coordinates written
    // as -0.0 - validity is a property of the point set
    if idx % 3 == 0 && cs.iter().chain(chs.iter().flatten()).all(|p| p.0.abs() < 4096 && p.1.abs() < 4096) {
        let g = Geometry::Polygon(pg.clone());
        acc.evals += 4;
        let twins: Vec<(&str, Result<bool, String>)> = vec![
            ("scaled by 2^-30", guard(|| map_geom_f(&g, &|c| Coord { x: c.x / 1073741824.0, y: c.y / 1073741824.0 }).is_valid())),
            ("scaled by 2^30", guard(|| map_geom_f(&g, &|c| Coord { x: c.x * 1073741824.0, y: c.y * 1073741824.0 }).is_valid())),
            ("as f32", guard(|| map_geom_g(&g, &|c| Coord { x: c.x as f32, y: c.y as f32 }).is_valid())),
            ("zeros written as -0.0", guard(|| neg_zeros(&g, 1).is_valid())),
        ];
        for (what, r) in twins {
            if r != Ok(want) {
                acc.viol(format!("Polygon::is_valid of the same polygon {} expected {} ({}) {}", what, want, why, tag), idx, || json!({"polygon": format!("{:?}", pg), "variant": what, "expected_valid": want, "got": format!("{:?}", r)}));
            }
        }
    }
    // every reported error must be true
    let empty_ring: Vec<IP> = vec![];
    let ring_of = |r: &RingRole| -> &Vec<IP> {
        match r {
            RingRole::Exterior => &cs,
            RingRole::Interior(i) => chs.get(*i).unwrap_or(&empty_ring),
        }
    };
    for e in &errs {
        acc.evals += 1;
        // an error must name a ring that exists
        let roles: Vec<&RingRole> = match e {
            InvalidPolygon::TooFewPointsInRing(r) | InvalidPolygon::SelfIntersection(r) | InvalidPolygon::NonFiniteCoord(r, _) | InvalidPolygon::InteriorRingNotContainedInExteriorRing(r) => vec![r],
            InvalidPolygon::IntersectingRingsOnALine(a, b) | InvalidPolygon::IntersectingRingsOnAnArea(a, b) => vec![a, b],
        };
        if roles.iter().any(|r| matches!(r, RingRole::Interior(i) if *i >= chs.len())) {
            acc.viol(format!("reported error names a ring that does not exist: {} {}", format!("{:?}", e).split('(').next().unwrap(), tag), idx, wit);
            continue;
        }
        let truth: Option<bool> = match e {
            InvalidPolygon::TooFewPointsInRing(r) => Some(trace(ring_of(r)).len() < 3 || ring_of(r).len() < 4),
            InvalidPolygon::SelfIntersection(r) => Some(!simple_ring(&trace(ring_of(r)))),
            InvalidPolygon::NonFiniteCoord(_, _) => Some(false),
            InvalidPolygon::InteriorRingNotContainedInExteriorRing(r) => {
                if ring_ok(&cs) && ring_ok(ring_of(r)) {
                    Some(!ring_inside(&trace(ring_of(r)), &trace(&cs)))
                } else {
                    None
                }
            }
            InvalidPolygon::IntersectingRingsOnALine(a, b) => {
                if ring_ok(ring_of(a)) && ring_ok(ring_of(b)) {
                    Some(ring_contacts(&trace(ring_of(a)), &trace(ring_of(b))).is_none())
                } else {
                    None
                }
            }
            InvalidPolygon::IntersectingRingsOnAnArea(a, b) => {
                if ring_ok(ring_of(a)) && ring_ok(ring_of(b)) {
                    let m = de9im(&AG::Polys(vec![Poly { shell: trace(ring_of(a)), holes: vec![] }]), &AG::Polys(vec![Poly { shell: trace(ring_of(b)), holes: vec![] }]));
                    Some(m[I][I] == 2)
                } else {
                    None
                }
            }
        };
        match truth {
            Some(false) => acc.viol(format!("reported error is not true: {} {}", format!("{:?}", e).split('(').next().unwrap(), tag), idx, wit),
            Some(true) => {}
            None => acc.count("error truth not decidable (a named ring is itself malformed)", 1),
        }
    }
}

pub fn run(mut run: Run) -> i32 {
    let quick = run.ctx.quick();
    run.rule = "every closed coordinate sequence with 1..5 free vertices over the 3x3 lattice as a shell (valid or not); shells x every closed 3- and 4-vertex sequence over the 4x4 window as hole; pairs of holes; \
        every ordered pair of simple lattice polygons as a MultiPolygon; non-finite coordinates in every geometry type; oracle = literal transcription of the property on the exact arrangement; \
        validation_errors empty iff valid; every reported error checked against the oracle; distinct = (family, reason class, sizes)"
        .into();
    run.assumptions = vec![
        "C14's wording does not mention a connected interior: polygons that are valid by the wording but whose hole(s) disconnect the interior are counted as dropped_out_of_domain, not compared".into(),
        "rings with consecutive repeated coordinates are judged as the curve they trace".into(),
    ];
    let g3 = grid(3);
    for k in 1..=5usize {
        let n = 9usize.pow(k as u32);
        let g3 = g3.clone();
        run.stage(&format!("shells-free{}", k), n, move |idx, acc| {
            let free: Vec<IP> = nth_sequence(9, k, idx).iter().map(|&i| g3[i]).collect();
            check_polygon(acc, idx, &free, &[], "shell");
        });
    }
    // holes
    let g4 = grid(4);
    let shells: Vec<Vec<IP>> = vec![
        vec![(0, 0), (3, 0), (3, 3), (0, 3)],
        vec![(0, 0), (3, 0), (0, 3)],
        vec![(0, 0), (3, 1), (2, 3), (0, 2)],
        vec![(0, 0), (3, 0), (3, 3), (1, 1), (0, 3)],
    ];
    for k in [3usize, 4] {
        let n = 16usize.pow(k as u32);
        let stride = if quick && k == 4 { 5 } else { 1 };
        let (g4, shells) = (g4.clone(), shells.clone());
        run.stage(&format!("hole-free{}", k), shells.len() * n / stride, move |idx, acc| {
            let s = &shells[idx % shells.len()];
            let h: Vec<IP> = nth_sequence(16, k, (idx / shells.len()) * stride).iter().map(|&i| g4[i]).collect();
            check_polygon(acc, idx, s, &[h], "1hole");
        });
    }
    // images under integer affine maps: validity is an affine invariant, but the oracle is simply recomputed on the image (oblique, nearly parallel
    // edges; crossing points that are not representable; coordinates up to 1e6)
    for (fi, f) in imaps().into_iter().enumerate() {
        let k = 5usize;
        let n = 9usize.pow(k as u32);
        let g3 = g3.clone();
        let fstride = if quick { 3 } else { 1 };
        run.stage(&format!("shells-free5-affine-image {}", f.name), n / fstride, move |idx, acc| {
            let free: Vec<IP> = nth_sequence(9, k, idx * fstride + fi % fstride).iter().map(|&i| f.ap(g3[i])).collect();
            check_polygon(acc, idx, &free, &[], "shell-affine-image");
        });
        let (g4, shells) = (g4.clone(), shells.clone());
        let hstride = if quick { 4 } else { 1 };
        run.stage(&format!("hole-free3-affine-image {}", f.name), shells.len() * 4096 / hstride, move |idx, acc| {
            let s: Vec<IP> = shells[idx % shells.len()].iter().map(|&p| f.ap(p)).collect();
            let h: Vec<IP> = nth_sequence(16, 3, (idx / shells.len()) * hstride + fi % hstride).iter().map(|&i| f.ap(g4[i])).collect();
            check_polygon(acc, idx, &s, &[h], "1hole-affine-image");
        });
    }
    // concave shell (U shape on the 6x6 lattice): holes whose vertices are all strictly inside but whose edges cross the slot
    let ushape: Vec<IP> = vec![(0, 0), (5, 0), (5, 5), (3, 5), (3, 2), (2, 2), (2, 5), (0, 5)];
    let g6 = grid(6);
    let n6 = g6.len();
    let ustride = if quick { 3 } else { 1 };
    run.stage("hole-in-concave-shell", n6 * n6 * n6 / ustride, |idx, acc| {
        let h: Vec<IP> = nth_sequence(n6, 3, idx * ustride).iter().map(|&i| g6[i]).collect();
        check_polygon(acc, idx, &ushape, &[h], "1hole-concave");
    });
    // two holes in a 6x4 window
    let big: Vec<IP> = vec![(0, 0), (5, 0), (5, 3), (0, 3)];
    let left = rings_over(&grid_xy(4, 4), 3);
    let all: Vec<IP> = grid_xy(6, 4);
    let nb = all.len();
    let n2 = nb * nb * nb;
    let lstride = if quick { 9 } else { 1 };
    let lefts: Vec<Vec<IP>> = left.into_iter().step_by(lstride).collect();
    run.stage("two-holes", lefts.len() * n2 / if quick { 3 } else { 1 }, |idx, acc| {
        let q = if quick { 3 } else { 1 };
        let a = &lefts[idx % lefts.len()];
        let bi = (idx / lefts.len()) * q;
        let b: Vec<IP> = nth_sequence(nb, 3, bi).iter().map(|&i| all[i]).collect();
        check_polygon(acc, idx, &big, &[a.clone(), b], "2holes");
    });
    // the same two-hole family with an EMPTY interior ring inserted before, between or after the two holes
    run.stage("two-holes-with-empty-ring", lefts.len() * n2 / if quick { 9 } else { 3 }, |idx, acc| {
        let q = if quick { 9 } else { 3 };
        let a = &lefts[idx % lefts.len()];
        let bi = (idx / lefts.len()) * q + 1;
        let b: Vec<IP> = nth_sequence(nb, 3, bi % n2).iter().map(|&i| all[i]).collect();
        let mut hs = vec![a.clone(), b];
        hs.insert(idx % 3, vec![]);
        check_polygon(acc, idx, &big, &hs, "2holes+empty");
    });
    // multipolygons: every ordered pair of simple G3 polygons
    let rs = rings(3, if quick { 5 } else { 8 });
    let nr = rs.len();
    run.stage("multipolygon-pairs", nr * nr, |idx, acc| {
        let (a, b) = (&rs[idx / nr], &rs[idx % nr]);
        let (pa, pb) = (Poly { shell: a.clone(), holes: vec![] }, Poly { shell: b.clone(), holes: vec![] });
        let m = de9im(&AG::Polys(vec![pa.clone()]), &AG::Polys(vec![pb.clone()]));
        let want = m[I][I] == -1 && m[B][B] <= 0;
        let mp = MultiPolygon(vec![poly(&pa), poly(&pb)]);
        acc.evals += 2;
        acc.class(format!("mp {} {}", mstr(&m), want));
        acc.sample(idx, || json!({"multipolygon": format!("{:?}", mp), "expected_valid": want}));
        match guard(|| (mp.is_valid(), mp.validation_errors())) {
            Err(e) => acc.viol("MultiPolygon::is_valid panic".into(), idx, || json!({"multipolygon": format!("{:?}", mp), "panic": e})),
            Ok((valid, errs)) => {
                let wit = || json!({"multipolygon": format!("{:?}", mp), "matrix": mstr(&m), "expected_valid": want, "is_valid": valid, "errors": format!("{:?}", errs)});
                if valid != want {
                    acc.viol(format!("MultiPolygon::is_valid expected {} got {}", want, valid), idx, wit);
                }
                if errs.is_empty() != valid {
                    acc.viol("MultiPolygon validation_errors().is_empty() != is_valid".into(), idx, wit);
                }
                for e in &errs {
                    let ok = match e {
                        InvalidMultiPolygon::InvalidPolygon(_, _) => false,
                        InvalidMultiPolygon::ElementsOverlaps(i, j) => i.0 == 0 && j.0 == 1 && m[I][I] == 2,
                        InvalidMultiPolygon::ElementsTouchOnALine(i, j) => i.0 == 0 && j.0 == 1 && m[B][B] == 1,
                    };
                    if !ok {
                        acc.viol(format!("MultiPolygon reported error is not true: {}", format!("{:?}", e).split('(').next().unwrap()), idx, wit);
                    }
                }
            }
        }
    });
    // three-member multipolygons: every ordered triple over a ring alphabet that includes an invalid (bow-tie) member; every reported error must name
    // members (by their real positions) that have the reported defect, and validity is the conjunction over the members and the pairs
    {
        let mut alpha: Vec<(Vec<IP>, bool)> = rings(3, 4).into_iter().step_by(if quick { 8 } else { 3 }).map(|r| (r, true)).collect();
        alpha.push((vec![(0, 0), (2, 2), (2, 0), (0, 2)], false)); // bow-tie
        alpha.push((vec![(0, 0), (1, 0), (2, 0)], false)); // flat
        alpha.push((vec![], true)); // an EMPTY member: valid, and related to nothing
        let na = alpha.len();
        run.stage("multipolygon-triples", na * na * na, |idx, acc| {
            let t = [&alpha[idx / (na * na)], &alpha[(idx / na) % na], &alpha[idx % na]];
            let ps: Vec<Poly> = t.iter().map(|(r, _)| Poly { shell: r.clone(), holes: vec![] }).collect();
            let mp = MultiPolygon(ps.iter().map(poly).collect::<Vec<_>>());
            // pairwise relation between the valid members
            let rel = |i: usize, j: usize| -> Option<Matrix> { if t[i].1 && t[j].1 && !t[i].0.is_empty() && !t[j].0.is_empty() { Some(de9im(&AG::Polys(vec![ps[i].clone()]), &AG::Polys(vec![ps[j].clone()]))) } else { None } };
            let all_members_valid = t.iter().all(|x| x.1);
            let pairs_ok = [(0, 1), (0, 2), (1, 2)].iter().all(|&(i, j)| rel(i, j).map_or(true, |m| m[I][I] == -1 && m[B][B] <= 0));
            acc.evals += 2;
            acc.class(format!("mp3 members-valid{} pairs-ok{}", all_members_valid, pairs_ok));
            acc.sample(idx, || json!({"multipolygon": format!("{:?}", mp), "members_valid": all_members_valid, "pairs_ok": pairs_ok}));
            match guard(|| (mp.is_valid(), mp.validation_errors())) {
                Err(e) => acc.viol("MultiPolygon(3 members)::is_valid panic".into(), idx, || json!({"multipolygon": format!("{:?}", mp), "panic": e})),
                Ok((valid, errs)) => {
                    let wit = || json!({"multipolygon": format!("{:?}", mp), "is_valid": valid, "errors": format!("{:?}", errs), "members_valid": t.iter().map(|x| x.1).collect::<Vec<_>>()});
                    // pairs involving an invalid member have no defined relation: validity is only compared when every member is valid
                    if all_members_valid && valid != pairs_ok {
                        acc.viol(format!("MultiPolygon(3 members)::is_valid expected {} got {}", pairs_ok, valid), idx, wit);
                    }
                    if !all_members_valid && valid {
                        acc.viol("MultiPolygon with an invalid member accepted".into(), idx, wit);
                    }
                    if errs.is_empty() != valid {
                        acc.viol("MultiPolygon(3 members) validation_errors().is_empty() != is_valid".into(), idx, wit);
                    }
                    for e in &errs {
                        let ok = match e {
                            InvalidMultiPolygon::InvalidPolygon(i, _) => i.0 < 3 && !t[i.0].1,
                            InvalidMultiPolygon::ElementsOverlaps(i, j) => i.0 < 3 && j.0 < 3 && i.0 != j.0 && rel(i.0, j.0).map_or(true, |m| m[I][I] == 2),
                            InvalidMultiPolygon::ElementsTouchOnALine(i, j) => i.0 < 3 && j.0 < 3 && i.0 != j.0 && rel(i.0, j.0).map_or(true, |m| m[B][B] == 1),
                        };
                        if !ok {
                            acc.viol(format!("MultiPolygon(3 members) reported error names members that do not have the defect: {}", format!("{:?}", e).split('(').next().unwrap()), idx, wit);
                        }
                    }
                }
            }
        });
    }
    // the other geometry types on the lattice: every Line, every LineString with up to 4 coordinates (repetition allowed), every Triangle (all 729 corner
    // triples), two-member MultiLineStrings and three-member GeometryCollections; rules as documented next to each error type
    {
        use geo::algorithm::validation::{InvalidGeometryCollection, InvalidLine, InvalidLineString, InvalidMultiLineString, InvalidTriangle};
        let g3 = grid(3);
        let cf = |p: IP| Coord { x: p.0 as f64, y: p.1 as f64 };
        let ls_valid = |v: &[IP]| v.is_empty() || v.iter().any(|p| *p != v[0]);
        let g3a = g3.clone();
        run.stage("other-types-lines", 81, move |idx, acc| {
            let (a, b) = (g3a[idx / 9], g3a[idx % 9]);
            let l = Line::new(cf(a), cf(b));
            acc.evals += 2;
            acc.class(format!("line valid{}", a != b));
            let (v, e) = (l.is_valid(), l.validation_errors());
            let ev = Geometry::Line(l).is_valid();
            if v != (a != b) || ev != v || e.is_empty() != v || e.iter().any(|x| !matches!(x, InvalidLine::IdenticalCoords)) {
                acc.viol("Line validity wrong (valid iff the end points differ)".into(), idx, || json!({"line": format!("{:?}", l), "is_valid": v, "enum_is_valid": ev, "errors": format!("{:?}", e)}));
            }
        });
        for k in 0..=4usize {
            let g3b = g3.clone();
            run.stage(&format!("other-types-linestring-len{}", k), 9usize.pow(k as u32), move |idx, acc| {
                let v: Vec<IP> = nth_sequence(9, k, idx).iter().map(|&i| g3b[i]).collect();
                let l = LineString::new(v.iter().map(|&p| cf(p)).collect());
                let want = ls_valid(&v);
                acc.evals += 3;
                acc.class(format!("linestring len{} valid{}", k, want));
                let (got, e) = (l.is_valid(), l.validation_errors());
                let ev = Geometry::LineString(l.clone()).is_valid();
                if got != want || ev != want || e.is_empty() != got || e.iter().any(|x| !matches!(x, InvalidLineString::TooFewPoints)) {
                    acc.viol("LineString validity wrong (valid iff empty or at least two distinct coordinates)".into(), idx, || json!({"linestring": format!("{:?}", l), "expected": want, "is_valid": got, "enum_is_valid": ev, "errors": format!("{:?}", e)}));
                }
                // as second member of a MultiLineString and as last member of a GeometryCollection: the error names that member
                let mls = MultiLineString(vec![LineString::new(vec![cf((0, 0)), cf((1, 2))]), l.clone()]);
                let (mv, me) = (mls.is_valid(), mls.validation_errors());
                if mv != want || me.is_empty() != mv || me.iter().any(|x| !matches!(x, InvalidMultiLineString::InvalidLineString(i, _) if i.0 == 1)) {
                    acc.viol("MultiLineString validity wrong / error names the wrong member".into(), idx, || json!({"multilinestring": format!("{:?}", mls), "expected": want, "is_valid": mv, "errors": format!("{:?}", me)}));
                }
                let gc = GeometryCollection(vec![Geometry::Point(Point(cf((1, 1)))), Geometry::MultiPoint(MultiPoint(vec![Point(cf((0, 0))), Point(cf((0, 0)))])), Geometry::LineString(l.clone())]);
                let (gv, ge) = (gc.is_valid(), gc.validation_errors());
                if gv != want || ge.is_empty() != gv || ge.iter().any(|x| !matches!(x, InvalidGeometryCollection::InvalidGeometry(i, _) if i.0 == 2)) {
                    acc.viol("GeometryCollection validity wrong / error names the wrong member".into(), idx, || json!({"collection": format!("{:?}", gc), "expected": want, "is_valid": gv, "errors": format!("{:?}", ge)}));
                }
            });
        }
        let g3c = g3.clone();
        run.stage("other-types-triangles", 729, move |idx, acc| {
            let (a, b, c) = (g3c[idx / 81], g3c[(idx / 9) % 9], g3c[idx % 9]);
            let t = Triangle(cf(a), cf(b), cf(c));
            let distinct = a != b && a != c && b != c;
            let want = distinct && area2(&[a, b, c]) != 0;
            acc.evals += 2;
            acc.class(format!("triangle distinct{} valid{}", distinct, want));
            let (got, e) = (t.is_valid(), t.validation_errors());
            let ev = Geometry::Triangle(t).is_valid();
            let pts = [a, b, c];
            let errs_true = e.iter().all(|x| match x {
                InvalidTriangle::IdenticalCoords(i, j) => i.0 < 3 && j.0 < 3 && i.0 != j.0 && pts[i.0] == pts[j.0],
                InvalidTriangle::CollinearCoords => distinct && area2(&[a, b, c]) == 0,
                InvalidTriangle::NonFiniteCoord(_) => false,
            });
            if got != want || ev != want || e.is_empty() != got || !errs_true {
                acc.viol("Triangle validity wrong (valid iff three distinct non-collinear corners) or an untrue error".into(), idx, || json!({"triangle": format!("{:?}", t), "expected": want, "is_valid": got, "enum_is_valid": ev, "errors": format!("{:?}", e)}));
            }
            // Rect: always valid for finite corners, whatever the corner order
            let r = Rect::new(cf(a), cf(b));
            acc.evals += 1;
            if !r.is_valid() || !Geometry::Rect(r).is_valid() || !r.validation_errors().is_empty() {
                acc.viol("Rect with finite corners reported invalid".into(), idx, || json!({"rect": format!("{:?}", r)}));
            }
        });
    }
    // thin triangles: corners within a few ulps (f64) / a few units at 2^13 (f32) of collinear; collinear exactly when the exact determinant vanishes
    {
        use geo::algorithm::validation::InvalidTriangle;
        run.stage("other-types-thin-triangles", 17 * 17 * 2 + 6561, |idx, acc| {
            if idx < 17 * 17 * 2 {
                let (i, j, big) = ((idx / 2 / 17) as i64 - 8, (idx / 2 % 17) as i64 - 8, idx % 2 == 1);
                let step = 2f64.powi(-30);
                let sc = if big { 1048576.0 } else { 1.0 };
                let (a, b, c3) = ((0.0, 0.0), ((1.0 + i as f64 * step) * sc, 1.0 * sc), (1.0 * sc, (1.0 + j as f64 * step) * sc));
                let exact = crate::bigf::orient(a, b, c3);
                let distinct = b != c3;
                let want = distinct && exact != 0;
                let t = Triangle(Coord { x: a.0, y: a.1 }, Coord { x: b.0, y: b.1 }, Coord { x: c3.0, y: c3.1 });
                acc.evals += 1;
                acc.class(format!("thin triangle f64 valid{}", want));
                let (got, e) = (t.is_valid(), t.validation_errors());
                if got != want || (want && !e.is_empty()) || e.iter().any(|x| matches!(x, InvalidTriangle::CollinearCoords) && (exact != 0 || !distinct)) {
                    acc.viol("thin Triangle<f64>: validity / CollinearCoords disagrees with the exact determinant".into(), idx, || json!({"triangle": format!("{:?}", t), "exact_orientation": exact, "is_valid": got, "errors": format!("{:?}", e)}));
                }
            } else {
                let k = (idx - 17 * 17 * 2) as i64;
                let (i, j, kk, l) = (k % 9 - 4, (k / 9) % 9 - 4, (k / 81) % 9 - 4, k / 729 - 4);
                let m: i64 = 8192;
                let (b, c3) = ((m + i, m + j), (2 * m + kk, 2 * m + l));
                let det = b.0 * c3.1 - b.1 * c3.0;
                let want = det != 0;
                let t = Triangle(Coord { x: 0.0f32, y: 0.0 }, Coord { x: b.0 as f32, y: b.1 as f32 }, Coord { x: c3.0 as f32, y: c3.1 as f32 });
                acc.evals += 1;
                acc.class(format!("thin triangle f32 valid{}", want));
                let (got, e) = (t.is_valid(), t.validation_errors());
                if got != want || (want && !e.is_empty()) {
                    acc.viol("thin Triangle<f32> with integer corners: validity disagrees with the exact determinant".into(), idx, || json!({"triangle": format!("{:?}", t), "exact_determinant": det, "is_valid": got, "errors": format!("{:?}", e)}));
                }
            }
        });
    }
    // finiteness clause on every type
    // (f64::MAX and 1.5e308 are finite: sums and products of such ordinates overflow, the ordinates themselves do not)
    let vals = [0.0, 1.0, f64::NAN, f64::INFINITY, f64::NEG_INFINITY, f64::MAX, -f64::MAX, 1.5e308];
    let nv = vals.len();
    run.stage("non-finite", nv * nv * nv * nv, |idx, acc| {
        let (x0, y0, x1, y1) = (vals[idx / (nv * nv * nv)], vals[(idx / (nv * nv)) % nv], vals[(idx / nv) % nv], vals[idx % nv]);
        let fin = x0.is_finite() && y0.is_finite() && x1.is_finite() && y1.is_finite();
        let (a, b) = (Coord { x: x0, y: y0 }, Coord { x: x1, y: y1 });
        let c3 = Coord { x: 5.0, y: 7.0 };
        let distinct = a != b;
        // (geometry, expected validity when all finite)
        let afin = a.x.is_finite() && a.y.is_finite();
        let mut cases: Vec<(&str, Geometry<f64>, bool)> = vec![
            ("MultiPoint", Geometry::MultiPoint(MultiPoint(vec![Point(a), Point(b)])), true),
            ("Line", Geometry::Line(Line::new(a, b)), distinct),
            ("LineString", Geometry::LineString(LineString::new(vec![a, b, c3])), true),
            ("MultiLineString", Geometry::MultiLineString(MultiLineString(vec![LineString::new(vec![a, c3]), LineString::new(vec![b, c3])])), true),
            ("Triangle", Geometry::Triangle(Triangle(a, b, c3)), distinct),
        ];
        if fin {
            // Rect::new needs comparable corners
            cases.push(("Rect", Geometry::Rect(Rect::new(a, b)), true));
        } else if [a.x, a.y, b.x, b.y].iter().all(|v| !v.is_nan()) {
            // infinite ordinates compare fine: a Rect with an infinite corner (in either corner, either ordinate) is not valid
            cases.push(("Rect", Geometry::Rect(Rect::new(a, b)), true));
        }
        for (name, g, valid_if_finite) in cases {
            if !fin {
                acc.evals += 1;
                let r = guard(|| crate::with_geom!(&g, x => x.is_valid()));
                acc.class(format!("nonfinite {}", name));
                if r != Ok(false) {
                    acc.viol(format!("{} with a non-finite coordinate accepted", name), idx, || json!({"geometry": format!("{:?}", g), "result": format!("{:?}", r)}));
                }
                let gc = Geometry::GeometryCollection(GeometryCollection(vec![Geometry::Point(Point(c3)), g.clone()]));
                let r = guard(|| gc.is_valid());
                if r != Ok(false) {
                    acc.viol(format!("GeometryCollection holding a {} with a non-finite coordinate accepted", name), idx, || json!({"geometry": format!("{:?}", gc), "result": format!("{:?}", r)}));
                }
            } else if valid_if_finite {
                acc.evals += 1;
                let r = guard(|| crate::with_geom!(&g, x => x.is_valid()));
                if r != Ok(true) {
                    acc.viol(format!("finite well-formed {} rejected", name), idx, || json!({"geometry": format!("{:?}", g), "result": format!("{:?}", r)}));
                }
            }
        }
        // Point uses the first coordinate only
        {
            let g = Geometry::Point(Point(a));
            acc.evals += 1;
            let r = guard(|| g.is_valid());
            if r != Ok(afin) {
                acc.viol("Point validity differs from finiteness of its coordinate".into(), idx, || json!({"geometry": format!("{:?}", g), "result": format!("{:?}", r)}));
            }
        }
        // polygon with one non-finite coordinate in the shell / in a hole
        if !fin {
            let shell = LineString::new(vec![Coord { x: 0.0, y: 0.0 }, Coord { x: 4.0, y: 0.0 }, Coord { x: 4.0, y: 4.0 }, a, Coord { x: 0.0, y: 0.0 }]);
            let pg = Polygon::new(shell, vec![]);
            // relate must not be called with NaN: only the per-ring checks run for a hole-free polygon
            let r = guard(|| pg.is_valid());
            acc.evals += 1;
            if !(a.x.is_finite() && a.y.is_finite()) && r != Ok(false) {
                acc.viol("Polygon with a non-finite shell coordinate accepted".into(), idx, || json!({"polygon": format!("{:?}", pg), "result": format!("{:?}", r)}));
            }
            // ... and with a hole present (the ring-vs-ring checks must not be reached with non-finite coordinates), and a non-finite hole coordinate
            if !(a.x.is_finite() && a.y.is_finite()) {
                let hole = LineString::new(vec![Coord { x: 1.0, y: 1.0 }, Coord { x: 2.0, y: 1.0 }, Coord { x: 1.0, y: 2.0 }, Coord { x: 1.0, y: 1.0 }]);
                let good_shell = LineString::new(vec![Coord { x: 0.0, y: 0.0 }, Coord { x: 4.0, y: 0.0 }, Coord { x: 4.0, y: 4.0 }, Coord { x: 0.0, y: 4.0 }, Coord { x: 0.0, y: 0.0 }]);
                let bad_hole = LineString::new(vec![Coord { x: 1.0, y: 1.0 }, Coord { x: 2.0, y: 1.0 }, a, Coord { x: 1.0, y: 1.0 }]);
                for (what, pg2) in [("non-finite shell coordinate and a hole", Polygon::new(pg.exterior().clone(), vec![hole.clone()])), ("non-finite hole coordinate", Polygon::new(good_shell.clone(), vec![bad_hole.clone()]))] {
                    acc.evals += 1;
                    let r = guard(|| (pg2.is_valid(), pg2.validation_errors().is_empty()));
                    if r != Ok((false, false)) {
                        acc.viol(format!("Polygon with a {}: is_valid/validation_errors did not report it (or panicked)", what), idx, || json!({"polygon": format!("{:?}", pg2), "result": format!("{:?}", r)}));
                    }
                }
            }
            // ... and as a member of a MultiPolygon next to sound members whose boxes overlap its own, in every position (the member-vs-member
            // checks must not be reached with non-finite coordinates); also inside a GeometryCollection
            if !(a.x.is_finite() && a.y.is_finite()) {
                let good1 = Polygon::new(LineString::new(vec![Coord { x: 1.0, y: 1.0 }, Coord { x: 3.0, y: 1.0 }, Coord { x: 3.0, y: 3.0 }, Coord { x: 1.0, y: 1.0 }]), vec![]);
                let good2 = Polygon::new(LineString::new(vec![Coord { x: 10.0, y: 10.0 }, Coord { x: 12.0, y: 10.0 }, Coord { x: 12.0, y: 12.0 }, Coord { x: 10.0, y: 10.0 }]), vec![]);
                for pos in 0..3usize {
                    let mut members = vec![good1.clone(), good2.clone()];
                    members.insert(pos, pg.clone());
                    let mp = geo::MultiPolygon(members);
                    acc.evals += 2;
                    let r = guard(|| (mp.is_valid(), mp.validation_errors().is_empty()));
                    if r != Ok((false, false)) {
                        acc.viol("MultiPolygon with a member that has a non-finite coordinate: is_valid/validation_errors did not report it (or panicked)".into(), idx, || json!({"multipolygon": format!("{:?}", mp), "position": pos, "result": format!("{:?}", r)}));
                    }
                    let gc = Geometry::GeometryCollection(GeometryCollection(vec![Geometry::MultiPolygon(mp.clone()), Geometry::Point(Point(c3))]));
                    let r = guard(|| gc.is_valid());
                    if r != Ok(false) {
                        acc.viol("GeometryCollection holding a MultiPolygon with a non-finite member coordinate accepted (or panicked)".into(), idx, || json!({"collection": format!("{:?}", gc), "result": format!("{:?}", r)}));
                    }
                }
            }
        }
    });
    run.finish()
}

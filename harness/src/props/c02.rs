//! C02 Intersects / Contains / Within / coordinate_position agree with the true DE-9IM.
use crate::build::*;
use crate::engine::*;
use crate::exact::*;
use crate::ops::*;
use geo::coordinate_position::CoordPos;
use geo::{Contains, Coord, CoordinatePosition, Geometry, Intersects, MapCoords, Within};
use serde_json::json;

fn to_i64(g: &Geometry<f64>) -> Geometry<i64> {
    map_geom_g(g, &|c| Coord { x: c.x as i64, y: c.y as i64 })
}
fn intersects_i64(a: &Geometry<i64>, b: &Geometry<i64>) -> bool {
    with_geom!(a, x => with_geom!(b, y => x.intersects(y)))
}

fn check_pair(acc: &mut Acc, idx: usize, a: &Shape, b: &Shape, gia: &Geometry<i64>, gib: &Geometry<i64>) {
        let truth = mstr(&de9im(&a.ag, &b.ag));
        let exp = [m_intersects(&truth), m_contains(&truth), m_within(&truth)];
        acc.sample(idx, || json!({"a": a.wkt(), "b": b.wkt(), "true_matrix": truth, "intersects/contains/within": exp}));
        let got = [
            ("intersects", exp[0], guard(|| intersects_concrete(&a.g, &b.g))),
            ("contains", exp[1], guard(|| contains_concrete(&a.g, &b.g))),
            ("within", exp[2], guard(|| within_concrete(&a.g, &b.g))),
            ("intersects<i64>", exp[0], guard(|| intersects_i64(gia, gib))),
            ("intersects[enum]", exp[0], guard(|| intersects_enum(&a.g, &b.g))),
            ("contains[enum]", exp[1], guard(|| contains_enum(&a.g, &b.g))),
        ];
        // the f32 instantiation of the same impls (lattice coordinates are exact in f32) on every sixth pair
        if idx % 6 == 0 {
            let (fa, fb) = (to_f32(&a.g), to_f32(&b.g));
            for (op, e, g) in [
                ("intersects<f32>", exp[0], guard(|| intersects_f32(&fa, &fb))),
                ("contains<f32>", exp[1], guard(|| contains_f32(&fa, &fb))),
                ("within<f32>", exp[2], guard(|| within_f32(&fa, &fb))),
            ] {
                acc.evals += 1;
                let gs = match g {
                    Ok(v) => v.to_string(),
                    Err(p) => format!("panic:{}", p),
                };
                if gs != e.to_string() {
                    acc.viol(format!("{} {}x{} matrix={} expected={} got={}", op, a.ty(), b.ty(), truth, e, gs), idx, || json!({"a": a.wkt(), "b": b.wkt(), "true_matrix": truth, "expected": e, "got": gs}));
                }
            }
        }
        // Contains on the integer instantiation, where the impl exists for a non-float scalar
        {
            #[allow(unused_imports)]
            use crate::ops::{NoC, YesC, P};
            let r = guard(|| with_geom!(gia, x => with_geom!(gib, y => (&P(x, y)).go_c())));
            match r {
                Ok(None) => acc.count("Contains<i64> not implemented for some type pairs (skipped)", 1),
                Ok(Some(v)) => {
                    acc.evals += 1;
                    acc.class(format!("contains<i64> {}x{} {} {}", a.ty(), b.ty(), truth, exp[1]));
                    if v != exp[1] {
                        acc.viol(format!("contains<i64> {}x{} matrix={} expected={} got={}", a.ty(), b.ty(), truth, exp[1], v), idx, || {
                            json!({"a": a.wkt(), "b": b.wkt(), "true_matrix": truth, "expected": exp[1], "got": v})
                        });
                    }
                }
                Err(p) => acc.viol(format!("contains<i64> {}x{} panic", a.ty(), b.ty()), idx, || json!({"a": a.wkt(), "b": b.wkt(), "panic": p})),
            }
        }
        for (op, e, g) in got {
            acc.evals += 1;
            acc.class(format!("{} {}x{} {} {}", op, a.ty(), b.ty(), truth, e));
            let gs = match g {
                Ok(v) => v.to_string(),
                Err(p) => format!("panic:{}", p),
            };
            if gs != e.to_string() {
                acc.viol(format!("{} {}x{} matrix={} expected={} got={}", op, a.ty(), b.ty(), truth, e, gs), idx, || {
                    json!({"a": a.wkt(), "b": b.wkt(), "true_matrix": truth, "expected": e, "got": gs})
                });
            }
        }
        // Coord-operand impls
        if let Geometry::Point(p) = &b.g {
            let co = p.0;
            #[allow(unused_imports)]
            use crate::ops::{NoC, NoI, YesC, YesI, P};
            let got = [
                ("intersects<Coord>", exp[0], guard(|| with_geom!(&a.g, x => (&P(x, &co)).go_i()))),
                ("Coord.intersects", exp[0], guard(|| with_geom!(&a.g, x => (&P(&co, x)).go_i()))),
                ("contains<Coord>", exp[1], guard(|| with_geom!(&a.g, x => (&P(x, &co)).go_c()))),
            ];
            for (op, e, g) in got {
                acc.evals += 1;
                let gs = match g {
                    Ok(Some(v)) => v.to_string(),
                    Ok(None) => {
                        acc.count(&format!("not implemented: {} {}", op, a.ty()), 1);
                        continue;
                    }
                    Err(p) => format!("panic:{}", p),
                };
                acc.class(format!("{} {} {} {}", op, a.ty(), truth, e));
                if gs != e.to_string() {
                    acc.viol(format!("{} {} matrix={} expected={} got={}", op, a.ty(), truth, e, gs), idx, || {
                        json!({"a": a.wkt(), "coord": format!("{:?}", co), "true_matrix": truth, "expected": e, "got": gs})
                    });
                }
            }
        }
}

pub fn run(mut run: Run) -> i32 {
    let mut cfg = super::c01::cfg(&run.ctx);
    if run.ctx.quick() {
        cfg.mls_stride = 70;
        cfg.mls3_stride = 10;
        cfg.mpg_stride = 30;
    }
    let shapes = families(&cfg);
    let n = shapes.len();
    let ishapes: Vec<Geometry<i64>> = shapes.iter().map(|s| to_i64(&s.g)).collect();
    let mut fam_counts = std::collections::BTreeMap::new();
    for s in &shapes {
        *fam_counts.entry(s.fam).or_insert(0u64) += 1;
    }
    run.extra.insert("families".into(), json!(fam_counts));
    run.rule = "every ordered pair of the lattice families, every concrete Intersects/Contains/Within impl (f64; Intersects also i64) \
        and the Coord-operand impls, against the masks evaluated on the exact reference DE-9IM; coordinate_position of every shape \
        at every half-step lattice point against exact point location; distinct = (impl, type pair, true matrix, answer)"
        .into();
    run.assumptions = vec![
        "integer lattice alphabet; domain = valid geometries, simple linework, single-dimension collections with disjoint members".into(),
        "masks are applied to the reference matrix, not to geo's relate".into(),
    ];
    // coordinate_position on the half-step lattice, one step outside the bounding box
    let span = 2 * (cfg.n.max(4)) + 4; // k/2 for k in -2 .. 2n+1
    let nq = (span * span) as usize;
    run.stage("coordinate_position", n * nq, |idx, acc| {
        let s = &shapes[idx / nq];
        let q = idx % nq;
        let (kx, ky) = ((q as i64 / span) - 2, (q as i64 % span) - 2);
        let hp = HP::new(kx as i128, ky as i128, 2);
        let co = Coord { x: kx as f64 / 2.0, y: ky as f64 / 2.0 };
        let exp = match locate(&s.ag, &hp) {
            I => CoordPos::Inside,
            B => CoordPos::OnBoundary,
            _ => CoordPos::Outside,
        };
        acc.evals += 1;
        acc.class(format!("cpos {} {:?} {}", s.ty(), exp, (kx % 2 == 0) as u8 + 2 * (ky % 2 == 0) as u8));
        acc.sample(idx, || json!({"g": s.wkt(), "coord": [co.x, co.y], "expected": format!("{:?}", exp)}));
        // where the query point sits relative to line endpoints (part of the violation signature)
        let tag = match &s.ag {
            AG::Lines(ls) => {
                let k = ls.iter().filter(|l| l[0] != l[l.len() - 1]).map(|l| (HP::int(l[0]) == hp) as usize + (HP::int(l[l.len() - 1]) == hp) as usize).sum::<usize>();
                if k > 0 { format!(" at-endpoint-of-{}-members", k) } else { String::new() }
            }
            _ => String::new(),
        };
        let got = guard(|| with_geom!(&s.g, x => x.coordinate_position(&co)));
        let gs = match got {
            Ok(v) => format!("{:?}", v),
            Err(p) => format!("panic:{}", p),
        };
        if gs != format!("{:?}", exp) {
            acc.viol(format!("coordinate_position {}{} expected={:?} got={}", s.ty(), tag, exp, gs), idx, || {
                json!({"g": s.wkt(), "coord": [co.x, co.y], "expected": format!("{:?}", exp), "got": gs})
            });
        }
        // signed zeros: the query written with -0.0, and the shape written with -0.0, denote the same points
        if kx == 0 || ky == 0 || matches!(&s.ag, AG::Polys(_) | AG::Lines(_)) && q % 5 == 0 {
            let cz = Coord { x: if co.x == 0.0 { -0.0 } else { co.x }, y: if co.y == 0.0 { -0.0 } else { co.y } };
            for (what, got) in [
                ("query written with -0.0", guard(|| with_geom!(&s.g, x => x.coordinate_position(&cz)))),
                ("shape written with -0.0", guard(|| { let z = neg_zeros(&s.g, 0); with_geom!(&z, x => x.coordinate_position(&co)) })),
                ("shape written with alternating -0.0", guard(|| { let z = neg_zeros(&s.g, 1); with_geom!(&z, x => x.coordinate_position(&cz)) })),
            ] {
                acc.evals += 1;
                let gs2 = match got {
                    Ok(v) => format!("{:?}", v),
                    Err(p) => format!("panic:{}", p),
                };
                // the known MultiLineString finding shows here as well; only report a signed-zero problem when the plain answer was right
                if gs2 != format!("{:?}", exp) && gs == format!("{:?}", exp) {
                    acc.viol(format!("coordinate_position {} changes with signed zeros ({}) expected={:?} got={}", s.ty(), what, exp, gs2), idx, || json!({"g": s.wkt(), "coord": [co.x, co.y], "expected": format!("{:?}", exp), "got": gs2}));
                }
            }
        }
        // integer instantiation on lattice points
        if kx % 2 == 0 && ky % 2 == 0 {
            let ci = Coord { x: kx / 2, y: ky / 2 };
            let gi = &ishapes[idx / nq];
            acc.evals += 1;
            let got = guard(|| with_geom!(gi, x => x.coordinate_position(&ci)));
            let gs = match got {
                Ok(v) => format!("{:?}", v),
                Err(p) => format!("panic:{}", p),
            };
            if gs != format!("{:?}", exp) {
                acc.viol(format!("coordinate_position<i64> {}{} expected={:?} got={}", s.ty(), tag, exp, gs), idx, || {
                    json!({"g": s.wkt(), "coord": [ci.x, ci.y], "expected": format!("{:?}", exp), "got": gs})
                });
            }
        }
    });
    run.stage("pairs", n * n, |idx, acc| {
        let (ia, ib) = (idx / n, idx % n);
        check_pair(acc, idx, &shapes[ia], &shapes[ib], &ishapes[ia], &ishapes[ib]);
    });
    // images under integer affine maps (exact oracle recomputed on the image): no axis-parallel edges, steep / nearly parallel edges, large coordinates
    {
        let step = run.ctx.pick(6, 2);
        let sub: Vec<&Shape> = shapes.iter().step_by(step).collect();
        let ns = sub.len();
        for f in &imaps() {
            let img: Vec<Shape> = sub.iter().map(|s| map_shape(s, f)).collect();
            let iimg: Vec<Geometry<i64>> = img.iter().map(|s| to_i64(&s.g)).collect();
            run.stage(&format!("pairs-affine-image {}", f.name), ns * ns, |idx, acc| {
                let (ia, ib) = (idx / ns, idx % ns);
                check_pair(acc, idx, &img[ia], &img[ib], &iimg[ia], &iimg[ib]);
            });
            // coordinate_position of the images at the images of the half-step lattice points (doubled map: all integers)
            let nq2 = 64usize;
            run.stage(&format!("coordinate_position-affine-image {}", f.name), ns * nq2, |idx, acc| {
                let s = &img[idx / nq2];
                let q = idx % nq2;
                // query = f(k/2) for k in -2..6 in both coordinates: f is affine with integer coefficients, so 2*f(k/2) is an integer point
                let (kx, ky) = ((q / 8) as i64 - 2, (q % 8) as i64 - 2);
                let (x2, y2) = (f.m[0] * kx + f.m[1] * ky + 2 * f.t.0, f.m[2] * kx + f.m[3] * ky + 2 * f.t.1);
                let hp = HP::new(x2 as i128, y2 as i128, 2);
                let co = Coord { x: x2 as f64 / 2.0, y: y2 as f64 / 2.0 };
                let exp = match locate(&s.ag, &hp) {
                    I => CoordPos::Inside,
                    B => CoordPos::OnBoundary,
                    _ => CoordPos::Outside,
                };
                acc.evals += 1;
                acc.class(format!("cpos-image {} {:?}", s.ty(), exp));
                let got = guard(|| with_geom!(&s.g, x => x.coordinate_position(&co)));
                let gs = match got {
                    Ok(v) => format!("{:?}", v),
                    Err(p) => format!("panic:{}", p),
                };
                // the known MultiLineString finding keeps its own signature in the lattice stage; here every mismatch is reported with the map
                let at_even_endpoint = matches!(&s.ag, AG::Lines(ls) if ls.iter().filter(|l| l[0] != l[l.len() - 1]).map(|l| (HP::int(l[0]) == hp) as usize + (HP::int(l[l.len() - 1]) == hp) as usize).sum::<usize>() == 2);
                if gs != format!("{:?}", exp) {
                    if at_even_endpoint && s.ty() == "MultiLineString" {
                        acc.viol(format!("coordinate_position MultiLineString at-endpoint-of-2-members expected={:?} got={}", exp, gs), idx, || json!({"g": s.wkt(), "coord": [co.x, co.y], "expected": format!("{:?}", exp), "got": gs}));
                    } else {
                        acc.viol(format!("coordinate_position[affine image] {} expected={:?} got={}", s.ty(), exp, gs), idx, || json!({"g": s.wkt(), "coord": [co.x, co.y], "expected": format!("{:?}", exp), "got": gs, "map": f.name}));
                    }
                }
            });
        }
    }
    // polygons with two or three holes whose bounding boxes overlap although the holes do not: coordinate_position, intersects, contains at every
    // half-step point of a 15x15 window, for the Polygon, the one-member MultiPolygon and the collection form
    {
        let hosts: Vec<Poly> = vec![
            Poly { shell: vec![(0, 0), (14, 0), (14, 14), (0, 14)], holes: vec![vec![(2, 2), (12, 2), (2, 12)], vec![(11, 11), (6, 11), (11, 6)]] },
            Poly { shell: vec![(0, 0), (14, 0), (14, 14), (0, 14)], holes: vec![vec![(11, 11), (6, 11), (11, 6)], vec![(2, 2), (12, 2), (2, 12)]] },
            Poly { shell: vec![(0, 0), (14, 0), (14, 14), (0, 14)], holes: vec![vec![(1, 1), (9, 1), (1, 9)], vec![(13, 13), (5, 13), (13, 5)], vec![(10, 2), (12, 2), (12, 4)]] },
        ];
        let nq = 29 * 29;
        run.stage("holes-with-overlapping-boxes", hosts.len() * nq, |idx, acc| {
            let h = &hosts[idx / nq];
            let q = idx % nq;
            let (kx, ky) = ((q / 29) as i64, (q % 29) as i64);
            let hp = HP::new(kx as i128, ky as i128, 2);
            let co = Coord { x: kx as f64 / 2.0, y: ky as f64 / 2.0 };
            let ag = AG::Polys(vec![h.clone()]);
            let exp = match locate(&ag, &hp) { I => CoordPos::Inside, B => CoordPos::OnBoundary, _ => CoordPos::Outside };
            acc.class(format!("overlapping-hole-boxes {:?}", exp));
            let pg = poly(h);
            let forms: Vec<(&str, Geometry<f64>)> = vec![
                ("Polygon", Geometry::Polygon(pg.clone())),
                ("MultiPolygon", Geometry::MultiPolygon(geo::MultiPolygon(vec![pg.clone()]))),
                ("GeometryCollection", Geometry::GeometryCollection(geo::GeometryCollection(vec![Geometry::Polygon(pg.clone())]))),
            ];
            for (name, g) in forms {
                acc.evals += 3;
                let pt = Geometry::Point(geo::Point(co));
                let got = guard(|| (with_geom!(&g, x => x.coordinate_position(&co)), intersects_concrete(&g, &pt), contains_concrete(&g, &pt)));
                let want = (exp, exp != CoordPos::Outside, exp == CoordPos::Inside);
                if got != Ok(want) {
                    acc.viol(format!("{} with holes whose bounding boxes overlap: coordinate_position / intersects / contains of a point wrong", name), idx, || json!({"polygon": format!("{:?}", pg), "point": [co.x, co.y], "expected": format!("{:?}", want), "got": format!("{:?}", got)}));
                }
            }
        });
    }
    // integer instantiations with large coordinates: a long diagonal a-c and a point b within a unit or two of it; all products fit i64 (and
    // i32 for its twin), so the answers must be exact: b on / left of / right of the diagonal decided in i128
    {
        let w = run.ctx.pick(5, 9) as i64;
        let n1 = (w * w) as usize;
        run.stage("integer-large-near-collinear", n1 * n1 * 2, |idx, acc| {
            let small = idx % 2 == 1; // i32 twin at 2^14
            let k = idx / 2;
            let (kc, kb) = ((k / n1) as i64, (k % n1) as i64);
            let big: i64 = if small { 1 << 14 } else { 1 << 31 };
            let (cx, cy) = (big + kc / w, big + kc % w);
            let (bx, by) = (big / 2 + kb / w, big / 2 + kb % w);
            let det = (cx as i128) * (by as i128) - (cy as i128) * (bx as i128);
            let exp_tri = if det > 0 { CoordPos::Inside } else if det == 0 { CoordPos::OnBoundary } else { CoordPos::Outside };
            acc.class(format!("int-large {} det{}", if small { "i32" } else { "i64" }, det.signum()));
            macro_rules! go {
                ($t:ty) => {{
                    let (a, c, d, b) = (Coord::<$t> { x: 0, y: 0 }, Coord::<$t> { x: cx as $t, y: cy as $t }, Coord::<$t> { x: 0, y: cy as $t }, Coord::<$t> { x: bx as $t, y: by as $t });
                    let line = geo::Line::new(a, c);
                    let lst = geo::LineString::new(vec![a, c, Coord { x: cx as $t, y: 0 }]);
                    let pg = geo::Polygon::new(geo::LineString::new(vec![a, c, d, a]), vec![]);
                    let pg_rev = geo::Polygon::new(geo::LineString::new(vec![a, d, c, a]), vec![]);
                    let (t1, t2) = (geo::Triangle(a, c, d), geo::Triangle(d, c, a));
                    let pt = geo::Point(b);
                    let on = det == 0;
                    let mut res: Vec<(&str, String, String)> = vec![];
                    let mut put = |name: &'static str, want: String, got: Result<String, String>| res.push((name, want, got.unwrap_or_else(|e| format!("panic:{}", e))));
                    put("Line.intersects(Point)", on.to_string(), guard(|| line.intersects(&pt).to_string()));
                    put("Point.intersects(Line)", on.to_string(), guard(|| pt.intersects(&line).to_string()));
                    put("Line.contains(Point)", on.to_string(), guard(|| line.contains(&pt).to_string()));
                    put("Line.intersects(Coord)", on.to_string(), guard(|| line.intersects(&b).to_string()));
                    put("LineString.intersects(Point)", on.to_string(), guard(|| lst.intersects(&pt).to_string()));
                    put("LineString.contains(Point)", on.to_string(), guard(|| lst.contains(&pt).to_string()));
                    put("LineString.coordinate_position", format!("{:?}", if on { CoordPos::Inside } else { CoordPos::Outside }), guard(|| format!("{:?}", lst.coordinate_position(&b))));
                    put("Line.coordinate_position", format!("{:?}", if on { CoordPos::Inside } else { CoordPos::Outside }), guard(|| format!("{:?}", line.coordinate_position(&b))));
                    put("Polygon.coordinate_position", format!("{:?}", exp_tri), guard(|| format!("{:?}", pg.coordinate_position(&b))));
                    put("Polygon(cw).coordinate_position", format!("{:?}", exp_tri), guard(|| format!("{:?}", pg_rev.coordinate_position(&b))));
                    put("Triangle.coordinate_position", format!("{:?}", exp_tri), guard(|| format!("{:?}", t1.coordinate_position(&b))));
                    put("Triangle(cw).coordinate_position", format!("{:?}", exp_tri), guard(|| format!("{:?}", t2.coordinate_position(&b))));
                    put("Polygon.intersects(Point)", (det >= 0).to_string(), guard(|| pg.intersects(&pt).to_string()));
                    put("Polygon.contains(Point)", (det > 0).to_string(), guard(|| pg.contains(&pt).to_string()));
                    put("Point.is_within(Polygon)", (det > 0).to_string(), guard(|| pt.is_within(&pg).to_string()));
                    put("Triangle.intersects(Point)", (det >= 0).to_string(), guard(|| t1.intersects(&pt).to_string()));
                    put("Triangle(cw).intersects(Point)", (det >= 0).to_string(), guard(|| t2.intersects(&pt).to_string()));
                    put("Triangle.contains(Point)", (det > 0).to_string(), guard(|| t1.contains(&pt).to_string()));
                    put("Polygon.intersects(Line to b)", (det >= 0).to_string(), guard(|| pg.intersects(&geo::Line::new(b, Coord { x: cx as $t, y: 0 })).to_string()));
                    acc.evals += res.len() as u64;
                    for (name, want, got) in res {
                        if want != got {
                            acc.viol(format!("{}<{}> wrong for a point within two units of a long diagonal (products fit the type) expected={} got={}", name, stringify!($t), want, got), idx, || {
                                json!({"a": [0, 0], "c": [cx, cy], "d": [0, cy], "b": [bx, by], "exact_determinant": det.to_string(), "expected": want, "got": got})
                            });
                        }
                    }
                }};
            }
            if small {
                go!(i32);
            } else {
                go!(i64);
            }
        });
    }
    if !run.ctx.quick() {
        let g4 = families(&super::c01::cfg_g4());
        let n4 = g4.len();
        run.stage("pairs-G4", n4 * n4, |idx, acc| {
            let (a, b) = (&g4[idx / n4], &g4[idx % n4]);
            let truth = mstr(&de9im(&a.ag, &b.ag));
            let exp = [m_intersects(&truth), m_contains(&truth), m_within(&truth)];
            for (op, e, g) in [
                ("intersects", exp[0], guard(|| intersects_concrete(&a.g, &b.g))),
                ("contains", exp[1], guard(|| contains_concrete(&a.g, &b.g))),
                ("within", exp[2], guard(|| within_concrete(&a.g, &b.g))),
            ] {
                acc.evals += 1;
                acc.class(format!("{} {}x{} {} {}", op, a.ty(), b.ty(), truth, e));
                let gs = match g {
                    Ok(v) => v.to_string(),
                    Err(p) => format!("panic:{}", p),
                };
                if gs != e.to_string() {
                    acc.viol(format!("{} {}x{} matrix={} expected={} got={}", op, a.ty(), b.ty(), truth, e, gs), idx, || {
                        json!({"a": a.wkt(), "b": b.wkt(), "true_matrix": truth, "expected": e, "got": gs})
                    });
                }
            }
        });
    }
    run.finish()
}

//! C06 Centroid is the centre of mass of the highest-dimensional part.
use crate::build::*;
use crate::engine::*;
use crate::enumr::*;
use crate::exact::*;
use geo::{Centroid, Coord, Geometry, GeometryCollection, Line, LineString, MapCoords, MultiLineString, MultiPoint, MultiPolygon, Point, Polygon, Rect, Triangle};
use serde_json::json;

/// leaf members with possibly degenerate content
#[derive(Clone, Debug)]
pub enum Leaf {
    Pt(IP),
    MPt(Vec<IP>),
    Ln(IP, IP),
    Ls(Vec<IP>),
    Mls(Vec<Vec<IP>>),
    /// rings given unclosed, exactly as written (may be flat / single point); windings as written
    Pg(Vec<IP>, Vec<Vec<IP>>),
    Mpg(Vec<(Vec<IP>, Vec<Vec<IP>>)>),
    Rc(IP, IP),
    Tr(IP, IP, IP),
    EmptyLs,
    EmptyPg,
    EmptyMpt,
}
#[derive(Clone, Debug)]
pub enum Node {
    L(Leaf),
    Gc(Vec<Node>),
}

impl Leaf {
    pub fn geom(&self) -> Geometry<f64> {
        match self {
            Leaf::Pt(p) => Geometry::Point(Point(c(*p))),
            Leaf::MPt(v) => Geometry::MultiPoint(MultiPoint(v.iter().map(|&p| Point(c(p))).collect())),
            Leaf::Ln(a, b) => Geometry::Line(Line::new(c(*a), c(*b))),
            Leaf::Ls(v) => Geometry::LineString(ls(v)),
            Leaf::Mls(v) => Geometry::MultiLineString(MultiLineString(v.iter().map(|l| ls(l)).collect())),
            Leaf::Pg(s, hs) => Geometry::Polygon(Polygon::new(ring_ls(s), hs.iter().map(|h| ring_ls(h)).collect())),
            Leaf::Mpg(ps) => Geometry::MultiPolygon(MultiPolygon(ps.iter().map(|(s, hs)| Polygon::new(ring_ls(s), hs.iter().map(|h| ring_ls(h)).collect())).collect())),
            Leaf::Rc(a, b) => Geometry::Rect(Rect::new(c(*a), c(*b))),
            Leaf::Tr(a, b, d) => Geometry::Triangle(Triangle(c(*a), c(*b), c(*d))),
            Leaf::EmptyLs => Geometry::LineString(LineString::new(vec![])),
            Leaf::EmptyPg => Geometry::Polygon(Polygon::new(LineString::new(vec![]), vec![])),
            Leaf::EmptyMpt => Geometry::MultiPoint(MultiPoint(vec![])),
        }
    }
}
impl Node {
    pub fn geom(&self) -> Geometry<f64> {
        match self {
            Node::L(l) => l.geom(),
            Node::Gc(v) => Geometry::GeometryCollection(GeometryCollection(v.iter().map(|n| n.geom()).collect())),
        }
    }
    fn leaves<'a>(&'a self, out: &mut Vec<&'a Leaf>) {
        match self {
            Node::L(l) => out.push(l),
            Node::Gc(v) => v.iter().for_each(|n| n.leaves(out)),
        }
    }
}

/// accumulated contributions by dimension: dim2 exact (2*area, 6*area*cx, 6*area*cy) ; dim1 f64 (len, len*mx, len*my); dim0 (n, sx, sy)
#[derive(Default, Debug)]
pub struct Acc3 {
    a2: i128,
    ax: i128,
    ay: i128,
    len: f64,
    lx: f64,
    ly: f64,
    n: i64,
    px: i64,
    py: i64,
    coords: Vec<IP>,
}
impl Acc3 {
    fn point(&mut self, p: IP) {
        self.n += 1;
        self.px += p.0;
        self.py += p.1;
    }
    fn seg(&mut self, a: IP, b: IP) {
        if a == b {
            // zero-length segment of a line: a point
            self.point(a);
            return;
        }
        let l = (((a.0 - b.0).pow(2) + (a.1 - b.1).pow(2)) as f64).sqrt();
        self.len += l;
        self.lx += l * (a.0 + b.0) as f64 / 2.0;
        self.ly += l * (a.1 + b.1) as f64 / 2.0;
    }
    fn polyline(&mut self, v: &[IP]) {
        if v.len() == 1 {
            self.point(v[0]);
        }
        for w in v.windows(2) {
            self.seg(w[0], w[1]);
        }
    }
    /// polygon: positive area -> areal; zero area -> its exterior outline as a line string; single point -> point
    fn polygon(&mut self, s: &[IP], hs: &[Vec<IP>]) {
        if s.is_empty() {
            return;
        }
        let mut a = area2(s).abs() as i128;
        let (ra, rx, ry) = ring_moments(s);
        let sg = if ra < 0 { -1 } else { 1 };
        let (mut mx, mut my) = (sg * rx, sg * ry);
        for h in hs {
            let (ha, hx, hy) = ring_moments(h);
            let sg = if ha < 0 { -1 } else { 1 };
            a -= (sg * ha) as i128;
            mx -= sg * hx;
            my -= sg * hy;
        }
        if a != 0 {
            self.a2 += a;
            self.ax += mx;
            self.ay += my;
        } else if s.iter().all(|p| *p == s[0]) {
            self.point(s[0]);
        } else {
            self.polyline(&close(s));
        }
    }
    fn leaf(&mut self, l: &Leaf) {
        match l {
            Leaf::Pt(p) => {
                self.coords.push(*p);
                self.point(*p)
            }
            Leaf::MPt(v) => {
                self.coords.extend(v);
                v.iter().for_each(|p| self.point(*p))
            }
            Leaf::Ln(a, b) => {
                self.coords.extend([*a, *b]);
                self.seg(*a, *b)
            }
            Leaf::Ls(v) => {
                self.coords.extend(v);
                self.polyline(v)
            }
            Leaf::Mls(v) => {
                for l in v {
                    self.coords.extend(l);
                    self.polyline(l);
                }
            }
            Leaf::Pg(s, hs) => {
                self.coords.extend(s);
                self.polygon(s, hs)
            }
            Leaf::Mpg(ps) => {
                for (s, hs) in ps {
                    self.coords.extend(s);
                    self.polygon(s, hs);
                }
            }
            Leaf::Rc(a, b) => {
                let (x0, x1, y0, y1) = (a.0.min(b.0), a.0.max(b.0), a.1.min(b.1), a.1.max(b.1));
                let r = vec![(x0, y0), (x1, y0), (x1, y1), (x0, y1)];
                self.coords.extend(&r);
                self.polygon(&r, &[]);
            }
            Leaf::Tr(a, b, d) => {
                self.coords.extend([*a, *b, *d]);
                self.polygon(&[*a, *b, *d], &[])
            }
            Leaf::EmptyLs | Leaf::EmptyPg | Leaf::EmptyMpt => {}
        }
    }
    /// expected centroid (x, y, dimension) or None for empty
    pub fn expected(&self) -> Option<(f64, f64, u8)> {
        if self.a2 != 0 {
            Some((Rat::new(self.ax, 3 * self.a2).f(), Rat::new(self.ay, 3 * self.a2).f(), 2))
        } else if self.len > 0.0 {
            Some((self.lx / self.len, self.ly / self.len, 1))
        } else if self.n > 0 {
            Some((self.px as f64 / self.n as f64, self.py as f64 / self.n as f64, 0))
        } else {
            None
        }
    }
}

fn check(acc: &mut Acc, idx: usize, node: &Node, tag: &str) {
    let mut leaves = vec![];
    node.leaves(&mut leaves);
    let mut a = Acc3::default();
    for l in &leaves {
        a.leaf(l);
    }
    let exp = a.expected();
    let g = node.geom();
    let sig_dims: Vec<String> = leaves.iter().map(|l| format!("{:?}", l).split(|c| c == '(' || c == ' ').next().unwrap().to_string()).collect();
    acc.class(format!("{} {:?} dim{:?}", tag, sig_dims, exp.map(|e| e.2)));
    acc.sample(idx, || json!({"geometry": format!("{:?}", g), "expected_centroid": exp.map(|e| [e.0, e.1])}));
    // the f32 instantiation (lattice values are exact in f32; tolerance 1e-5)
    {
        use geo::Centroid;
        let g32 = map_geom_g(&g, &|c| Coord { x: c.x as f32, y: c.y as f32 });
        acc.evals += 1;
        match (guard(|| g32.centroid()), exp) {
            (Err(p), _) => acc.viol(format!("centroid<f32> panic {}", tag), idx, || json!({"geometry": format!("{:?}", g), "panic": p})),
            (Ok(None), None) => {}
            (Ok(Some(p)), Some(e)) => {
                if !((p.x() as f64 - e.0).abs() <= 1e-5 && (p.y() as f64 - e.1).abs() <= 1e-5) {
                    acc.viol(format!("centroid<f32> wrong {} expected-dimension={}", tag, e.2), idx, || json!({"geometry": format!("{:?}", g), "expected": [e.0, e.1], "got": format!("{:?}", p)}));
                }
            }
            (Ok(got), e) => acc.viol(format!("centroid<f32> None/Some mismatch {}", tag), idx, || json!({"geometry": format!("{:?}", g), "expected": format!("{:?}", e), "got": format!("{:?}", got)})),
        }
    }
    for (oname, off) in [("0", (0.0, 0.0)), ("1.5e8", (1.5e8, -1.5e8))] {
        let gg = map_geom_f(&g, &|c| Coord { x: c.x + off.0, y: c.y + off.1 });
        // 2^-30 and 2^40 only at the origin: power-of-two scaling is exact, so the centroid must scale exactly (no absolute size thresholds)
        let scales: &[f64] = if off.0 == 0.0 { &[1.0, 2.0, 1.0 / 1073741824.0, 1099511627776.0] } else { &[1.0, 2.0] };
        for &scale in scales {
            let gs = map_geom_f(&gg, &|c| Coord { x: c.x * scale, y: c.y * scale });
            let got = guard(|| gs.centroid());
            acc.evals += 1;
            let tol = if off.0 == 0.0 { 1e-12 } else { 1e-6 } * scale;
            let wit = |got: &dyn std::fmt::Debug| json!({"geometry": format!("{:?}", gs), "expected": exp.map(|e| [(e.0 + off.0) * scale, (e.1 + off.1) * scale]), "expected_dimension": exp.map(|e| e.2), "got": format!("{:?}", got)});
            match (got, exp) {
                (Err(p), _) => acc.viol(format!("centroid panic {}", tag), idx, || wit(&p)),
                (Ok(None), None) => {}
                (Ok(Some(p)), Some(e)) => {
                    let (ex, ey) = ((e.0 + off.0) * scale, (e.1 + off.1) * scale);
                    let d = (p.x() - ex).abs().max((p.y() - ey).abs());
                    acc.maxf(&format!("centroid deviation offset {}", oname), d);
                    if !(d <= tol) {
                        acc.viol(format!("centroid wrong {} expected-dimension={} offset={} scale={}", tag, e.2, oname, scale), idx, || wit(&p));
                    }
                    // inside the convex hull of the coordinates (slack)
                    let h = hull(&a.coords);
                    if h.len() >= 3 {
                        for i in 0..h.len() {
                            let (u, v) = (h[i], h[(i + 1) % h.len()]);
                            let (ux, uy, vx, vy) = ((u.0 as f64 + off.0) * scale, (u.1 as f64 + off.1) * scale, (v.0 as f64 + off.0) * scale, (v.1 as f64 + off.1) * scale);
                            let cr = (vx - ux) * (p.y() - uy) - (vy - uy) * (p.x() - ux);
                            if cr < -1e-6 * scale * scale * (1.0 + off.0.abs()) {
                                acc.viol(format!("centroid outside convex hull {}", tag), idx, || wit(&p));
                            }
                        }
                    }
                }
                (Ok(got), _) => acc.viol(format!("centroid None/Some mismatch {}", tag), idx, || wit(&got)),
            }
        }
    }
}

pub fn run(mut run: Run) -> i32 {
    let quick = run.ctx.quick();
    run.rule = "every lattice shape (points, lines, polylines incl. repeated points, polygons of either winding incl. holes, flat and single-point polygons, degenerate Rect/Triangle, Multi*) \
        and every 1-,2-,3-member GeometryCollection over a 14-leaf alphabet in three nesting shapes, at offsets {0,1.5e8} and scales {1,2}: centroid vs exact rational (areal) / length-weighted (linear) / mean (points) with dimension dominance; None iff empty; inside convex hull"
        .into();
    run.assumptions = vec!["tolerance 1e-12 at the origin, 1e-6 at offset 1.5e8 (ulp there is 3e-8); linear weights use f64 sqrt".into()];
    // (a) singles
    let mut singles: Vec<Node> = vec![];
    let g3 = grid(3);
    for &p in &g3 {
        singles.push(Node::L(Leaf::Pt(p)));
        for &q in &g3 {
            singles.push(Node::L(Leaf::Ln(p, q)));
            singles.push(Node::L(Leaf::Rc(p, q)));
            for &r in g3.iter().step_by(if quick { 2 } else { 1 }) {
                singles.push(Node::L(Leaf::Tr(p, q, r)));
                singles.push(Node::L(Leaf::Ls(vec![p, q, r])));
                singles.push(Node::L(Leaf::Pg(vec![p, q, r], vec![])));
                singles.push(Node::L(Leaf::MPt(vec![p, q, r])));
            }
        }
    }
    for p in super::c05::poly_family(quick).into_iter().step_by(if quick { 3 } else { 1 }) {
        singles.push(Node::L(Leaf::Pg(p.shell.clone(), p.holes.clone())));
        if !p.holes.is_empty() {
            singles.push(Node::L(Leaf::Pg(reverse_ring(&p.shell), p.holes.clone())));
            singles.push(Node::L(Leaf::Pg(p.shell.clone(), p.holes.iter().map(|h| reverse_ring(h)).collect())));
        }
    }
    // zero NET area: the hole(s) cancel the shell (hole equal to the shell in either winding, two holes tiling it) -> outline of the exterior
    for r in rings(3, 5).into_iter().step_by(if quick { 2 } else { 1 }) {
        singles.push(Node::L(Leaf::Pg(r.clone(), vec![r.clone()])));
        singles.push(Node::L(Leaf::Pg(r.clone(), vec![reverse_ring(&r)])));
        singles.push(Node::Gc(vec![Node::L(Leaf::Pg(r.clone(), vec![rotate_ring(&r, 1)])), Node::L(Leaf::Ln((0, 0), (2, 1)))]));
        singles.push(Node::Gc(vec![Node::L(Leaf::Pg(r.clone(), vec![r.clone()])), Node::L(Leaf::Pg(vec![(0, 0), (2, 0), (2, 2), (0, 2)], vec![]))]));
        singles.push(Node::L(Leaf::Mpg(vec![(r.clone(), vec![r.clone()]), (vec![(0, 0), (1, 0), (0, 1)], vec![])])));
    }
    singles.push(Node::L(Leaf::Pg(vec![(0, 0), (2, 0), (2, 2), (0, 2)], vec![vec![(0, 0), (2, 0), (2, 2)], vec![(0, 0), (2, 2), (0, 2)]])));
    for s in sequences(&g3, 4).into_iter().step_by(if quick { 7 } else { 1 }) {
        singles.push(Node::L(Leaf::Ls(s.clone())));
        if area2(&s) == 0 {
            singles.push(Node::L(Leaf::Pg(s, vec![])));
        }
    }
    // MultiPolygons whose members ALL have zero area but different numbers of distinct vertices (a spike of three collinear points, a flat two-point
    // ring, a single point, a polygon whose hole cancels it): the length-weighted outline rule applies to every member
    {
        let spikes: Vec<Vec<IP>> = vec![vec![(0, 0), (1, 0), (2, 0)], vec![(0, 0), (1, 1), (2, 2)], vec![(2, 0), (2, 2), (2, 1)], vec![(0, 2), (2, 2), (1, 2)]];
        let flats: Vec<Vec<IP>> = vec![vec![(0, 1), (0, 2)], vec![(1, 0), (2, 1)], vec![(0, 0), (2, 0)], vec![(1, 1), (1, 2)]];
        let sq1: Vec<IP> = vec![(0, 0), (1, 0), (1, 1), (0, 1)];
        for s in &spikes {
            for f in &flats {
                singles.push(Node::L(Leaf::Mpg(vec![(s.clone(), vec![]), (f.clone(), vec![])])));
                singles.push(Node::L(Leaf::Mpg(vec![(f.clone(), vec![]), (s.clone(), vec![])])));
                singles.push(Node::L(Leaf::Mpg(vec![(sq1.clone(), vec![sq1.clone()]), (f.clone(), vec![])])));
                singles.push(Node::L(Leaf::Mpg(vec![(f.clone(), vec![]), (vec![(2, 2), (2, 2), (2, 2)], vec![]), (s.clone(), vec![])])));
            }
        }
        // positive-area polygons with degenerate holes (flat, single point) and an exterior that is not centrally symmetric: the holes take nothing away
        for shell in [vec![(0, 0), (2, 0), (0, 1)], vec![(0, 0), (2, 0), (2, 2), (0, 1)], vec![(0, 0), (2, 1), (1, 2)]] {
            for holes in [vec![vec![(0, 0), (1, 0)]], vec![vec![(1, 0), (1, 0), (1, 0)]], vec![vec![(0, 0), (2, 0), (1, 0)], vec![(0, 1), (0, 1)]], vec![vec![(0, 0), (1, 1)], vec![(1, 0), (0, 1)], vec![(2, 0), (2, 0)]]] {
                singles.push(Node::L(Leaf::Pg(shell.clone(), holes.clone())));
                singles.push(Node::Gc(vec![Node::L(Leaf::Pg(shell.clone(), holes)), Node::L(Leaf::Ln((0, 0), (2, 2)))]));
            }
        }
    }
    let ns = singles.len();
    run.stage("singles", ns, |idx, acc| check(acc, idx, &singles[idx], "single"));
    // (b) collections over a leaf alphabet
    let sqr = vec![(0, 0), (2, 0), (2, 2), (0, 2)];
    let alpha: Vec<Leaf> = vec![
        Leaf::Pt((0, 0)),
        Leaf::Pt((2, 1)),
        Leaf::MPt(vec![(1, 1), (1, 2)]),
        Leaf::Ln((0, 0), (2, 0)),
        Leaf::Ln((1, 1), (1, 1)),
        Leaf::Ls(vec![(0, 2), (1, 2), (1, 0)]),
        Leaf::Mls(vec![vec![(0, 0), (0, 1)], vec![(2, 2), (2, 2)]]),
        Leaf::Pg(sqr.clone(), vec![vec![(0, 0), (1, 0), (0, 1)]]),
        Leaf::Pg(vec![(0, 0), (2, 1), (0, 2)], vec![]),
        Leaf::Pg(vec![(0, 0), (1, 0), (2, 0)], vec![]),
        Leaf::Pg(vec![(1, 2), (1, 2), (1, 2)], vec![]),
        Leaf::Mpg(vec![(vec![(0, 0), (1, 0), (0, 1)], vec![]), (vec![(1, 1), (2, 1), (2, 2), (1, 2)], vec![])]),
        Leaf::EmptyLs,
        Leaf::EmptyPg,
        Leaf::EmptyMpt,
        Leaf::Rc((0, 0), (2, 1)),
        Leaf::Tr((0, 0), (2, 0), (0, 2)),
        // a CLOCKWISE triangle (tuple constructor keeps the order) and a clockwise polygon: weights are areas, not signed areas
        Leaf::Tr((1, 0), (1, 2), (2, 2)),
        Leaf::Pg(vec![(0, 0), (0, 2), (1, 2), (1, 0)], vec![]),
    ];
    let na = alpha.len();
    let mut colls: Vec<Node> = vec![Node::Gc(vec![])];
    for i in 0..na {
        colls.push(Node::Gc(vec![Node::L(alpha[i].clone())]));
        colls.push(Node::Gc(vec![Node::Gc(vec![Node::L(alpha[i].clone())]), Node::Gc(vec![])]));
        for j in 0..na {
            colls.push(Node::Gc(vec![Node::L(alpha[i].clone()), Node::L(alpha[j].clone())]));
            colls.push(Node::Gc(vec![Node::Gc(vec![Node::L(alpha[i].clone())]), Node::L(alpha[j].clone())]));
            for k in 0..na {
                colls.push(Node::Gc(vec![Node::L(alpha[i].clone()), Node::L(alpha[j].clone()), Node::L(alpha[k].clone())]));
                colls.push(Node::Gc(vec![Node::L(alpha[i].clone()), Node::Gc(vec![Node::L(alpha[j].clone()), Node::L(alpha[k].clone())])]));
                if !quick || (i + j + k) % 3 == 0 {
                    colls.push(Node::Gc(vec![Node::Gc(vec![Node::Gc(vec![Node::L(alpha[i].clone())]), Node::L(alpha[j].clone())]), Node::L(alpha[k].clone())]));
                }
            }
        }
    }
    let nc = colls.len();
    run.stage("collections", nc, |idx, acc| check(acc, idx, &colls[idx], "collection"));
    // long rings and long line strings (tens to thousands of coordinates): shapes whose centroid is known exactly however finely their sides are subdivided -
    // a w x h rectangle (optionally with a centred rectangular hole), an L-shape, an open zigzag; as Polygon, MultiPolygon member and collection member
    {
        let ks: Vec<usize> = if quick { vec![1, 7, 15, 16, 17, 31, 32, 33, 100, 1000] } else { vec![1, 2, 3, 7, 15, 16, 17, 31, 32, 33, 63, 64, 65, 100, 127, 128, 129, 255, 256, 257, 1000, 4097, 20000] };
        run.stage("long-rings", ks.len() * 4, |idx, acc| {
            let (k, shape) = (ks[idx / 4], idx % 4);
            // subdivide every side of a polyline into k equal parts (exact for power-of-two k; otherwise within rounding)
            let densify = |corners: &[(f64, f64)]| -> Vec<Coord<f64>> {
                let mut out = vec![];
                for w in corners.windows(2) {
                    for i in 0..k {
                        let t = i as f64 / k as f64;
                        out.push(Coord { x: w[0].0 + (w[1].0 - w[0].0) * t, y: w[0].1 + (w[1].1 - w[0].1) * t });
                    }
                }
                let l = corners[corners.len() - 1];
                out.push(Coord { x: l.0, y: l.1 });
                out
            };
            let rect = [(0.0, 0.0), (40.0, 0.0), (40.0, 10.0), (0.0, 10.0), (0.0, 0.0)];
            let hole = [(15.0, 3.0), (15.0, 7.0), (25.0, 7.0), (25.0, 3.0), (15.0, 3.0)];
            let ell = [(0.0, 0.0), (6.0, 0.0), (6.0, 2.0), (2.0, 2.0), (2.0, 6.0), (0.0, 6.0), (0.0, 0.0)];
            let (name, g, want): (&str, Geometry<f64>, (f64, f64)) = match shape {
                0 => ("rectangle", Geometry::Polygon(Polygon::new(LineString::new(densify(&rect)), vec![])), (20.0, 5.0)),
                1 => ("rectangle with a centred hole", Geometry::Polygon(Polygon::new(LineString::new(densify(&rect)), vec![LineString::new(densify(&hole))])), (20.0, 5.0)),
                // L-shape: 6x2 bar (centroid (3,1), area 12) + 2x4 bar (centroid (1,4), area 8): (44/20, 44/20)
                2 => ("L-shape", Geometry::MultiPolygon(MultiPolygon(vec![Polygon::new(LineString::new(densify(&ell)), vec![])])), (2.2, 2.2)),
                // open path: (0,0)-(10,0)-(10,10): two equal sides with midpoints (5,0) and (10,5)
                _ => ("open path", Geometry::GeometryCollection(GeometryCollection(vec![Geometry::LineString(LineString::new(densify(&[(0.0, 0.0), (10.0, 0.0), (10.0, 10.0)])))])), (7.5, 2.5)),
            };
            acc.evals += 1;
            acc.class(format!("long ring {} ", name));
            match guard(|| g.centroid()) {
                Ok(Some(c)) if (c.x() - want.0).abs() <= 1e-9 && (c.y() - want.1).abs() <= 1e-9 => {}
                other => acc.viol(format!("centroid of a finely subdivided {} is not its known centre of mass", name), idx, || json!({"pieces_per_side": k, "expected": [want.0, want.1], "got": format!("{:?}", other)})),
            }
        });
    }
    run.finish()
}

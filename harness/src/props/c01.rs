//! C01 relate() returns the true DE-9IM matrix.
use crate::build::*;
use crate::engine::*;
use crate::exact::*;
use crate::ops::*;
use serde_json::json;

pub fn cfg(ctx: &Ctx) -> FamCfg {
    if ctx.quick() {
        FamCfg { n: 3, ring_k: 4, ls_k: 3, mpt_m: 2, mls: 3, mpg: true, pgh: true, gc: true, stride: 1, mls_stride: 40, mpg_stride: 20, mls3_stride: 6 }
    } else {
        FamCfg { n: 3, ring_k: 8, ls_k: 4, mpt_m: 3, mls: 3, mpg: true, pgh: true, gc: true, stride: 1, mls_stride: 1, mpg_stride: 1, mls3_stride: 1 }
    }
}

/// a second, larger alphabet for the thorough tier: the 4x4 lattice (vertex on edge at thirds, longer collinear overlaps)
pub fn cfg_g4() -> FamCfg {
    FamCfg { n: 4, ring_k: 4, ls_k: 3, mpt_m: 2, mls: 2, mpg: false, pgh: false, gc: false, stride: 2, mls_stride: 12, mpg_stride: 40, mls3_stride: 1 }
}

/// does the DE-9IM string match the pattern (T = non-empty, F = empty, * = anything, 0/1/2 exact)?
fn mask(m: &str, pat: &str) -> bool {
    m.bytes().zip(pat.bytes()).all(|(c, p)| match p {
        b'*' => true,
        b'T' => c != b'F',
        x => c == x,
    })
}
fn named_predicates(acc: &mut Acc, idx: usize, truth: &str, da: i32, db: i32) {
    use std::str::FromStr;
    let im = match geo::relate::IntersectionMatrix::from_str(truth) {
        Ok(x) => x,
        Err(e) => {
            acc.viol("IntersectionMatrix::from_str rejects a valid matrix".into(), idx, || json!({"matrix": truth, "error": format!("{:?}", e)}));
            return;
        }
    };
    let any = |pats: &[&str]| pats.iter().any(|p| mask(truth, p));
    let crosses = if da < db { mask(truth, "T*T******") } else if da > db { mask(truth, "T*****T**") } else if da == 1 { mask(truth, "0********") } else { false };
    let overlaps = if da != db { false } else if da == 1 { mask(truth, "1*T***T**") } else { mask(truth, "T*T***T**") };
    let checks: [(&str, bool, bool); 12] = [
        ("is_disjoint", im.is_disjoint(), mask(truth, "FF*FF****")),
        ("is_intersects", im.is_intersects(), !mask(truth, "FF*FF****")),
        ("is_within", im.is_within(), mask(truth, "T*F**F***")),
        ("is_contains", im.is_contains(), mask(truth, "T*****FF*")),
        ("is_equal_topo", im.is_equal_topo(), mask(truth, "T*F**FFF*")),
        ("is_coveredby", im.is_coveredby(), any(&["T*F**F***", "*TF**F***", "**FT*F***", "**F*TF***"])),
        ("is_covers", im.is_covers(), any(&["T*****FF*", "*T****FF*", "***T**FF*", "****T*FF*"])),
        ("is_touches", im.is_touches(), any(&["FT*******", "F**T*****", "F***T****"])),
        ("is_crosses", im.is_crosses(), crosses),
        ("is_overlaps", im.is_overlaps(), overlaps),
        ("matches(self)", im.matches(truth).unwrap_or(false), true),
        ("Debug round trip", format!("{:?}", im) == format!("IntersectionMatrix({})", truth), true),
    ];
    for (name, got, want) in checks {
        acc.evals += 1;
        if got != want {
            acc.viol(format!("IntersectionMatrix::{} disagrees with its documented mask (operand dimensions {} x {})", name, da, db), idx, || json!({"matrix": truth, "expected": want, "got": got}));
        }
    }
}

pub fn run(mut run: Run) -> i32 {
    let shapes = families(&cfg(&run.ctx));
    let n = shapes.len();
    let mut fam_counts = std::collections::BTreeMap::new();
    for s in &shapes {
        *fam_counts.entry(s.fam).or_insert(0u64) += 1;
    }
    run.extra.insert("families".into(), json!(fam_counts));
    run.rule = "every ordered pair of the lattice families (DESIGN §3) as concrete types and through the Geometry enum; \
        relate() compared cell by cell with the exact arrangement-based DE-9IM; non-trivial/distinct = distinct (type pair, true matrix) class"
        .into();
    run.assumptions = vec![
        "coordinates restricted to the integer lattice alphabet stated in coverage.families".into(),
        "oracle: exact rational arrangement (harness/src/exact.rs), cross-checked against JTS expected matrices in C01 stage oracle-selfcheck".into(),
    ];
    // conformance of the reference model: it must reproduce JTS's expected matrices
    let (checked, total, bad) = crate::jts::selfcheck();
    run.extra.insert("oracle_cases_crosschecked".into(), json!(checked));
    run.extra.insert("oracle_jts_relate_cases_seen".into(), json!(total));
    if !bad.is_empty() {
        for b in bad.iter().take(10) {
            eprintln!("oracle disagrees with JTS expectation: {}", b);
        }
        panic!("reference kernel disagrees with {} JTS relate cases", bad.len());
    }
    run.stage("pairs", n * n, |idx, acc| {
        let (a, b) = (&shapes[idx / n], &shapes[idx % n]);
        let truth = mstr(&de9im(&a.ag, &b.ag));
        acc.class(format!("{}x{}:{}", a.ty(), b.ty(), truth));
        acc.sample(idx, || json!({"a": a.wkt(), "b": b.wkt(), "true_matrix": truth}));
        // the named predicates of IntersectionMatrix, evaluated on the TRUE matrix, against their documented masks (the operand dimensions come from
        // the abstract description, not from the matrix)
        named_predicates(acc, idx, &truth, a.ag.dim(), b.ag.dim());
        // the f32 instantiation (lattice coordinates are exact in f32) on every fifth pair
        if idx % 5 == 0 {
            acc.evals += 1;
            let got = guard(|| relate_f32(&to_f32(&a.g), &to_f32(&b.g))).unwrap_or_else(|e| format!("panic:{}", e));
            if got != truth {
                acc.viol(format!("relate<f32> {}x{} true={} got={}", a.ty(), b.ty(), truth, got), idx, || json!({"a": a.wkt(), "b": b.wkt(), "true": truth, "got": got}));
            }
        }
        for (how, got) in [
            ("concrete", guard(|| relate_concrete(&a.g, &b.g))),
            ("enum", guard(|| relate_enum(&a.g, &b.g))),
        ] {
            acc.evals += 1;
            let got = got.unwrap_or_else(|e| format!("panic:{}", e));
            if got != truth {
                acc.viol(format!("relate[{}] {}x{} true={} got={}", how, a.ty(), b.ty(), truth, got), idx, || {
                    json!({"a": a.wkt(), "b": b.wkt(), "true": truth, "got": got})
                });
            }
        }
    });
    // images of the lattice families under integer affine maps: the exact oracle is recomputed on the image (no invariance assumed); the images have no
    // axis-parallel edges, steep and nearly parallel edges, larger coordinates and intersection points that are not representable
    {
        let maps = imaps();
        let step = run.ctx.pick(5, 2);
        let sub: Vec<&Shape> = shapes.iter().step_by(step).collect();
        let ns = sub.len();
        for f in &maps {
            let img: Vec<Shape> = sub.iter().map(|s| map_shape(s, f)).collect();
            run.stage(&format!("pairs-affine-image {}", f.name), ns * ns, |idx, acc| {
                let (a, b) = (&img[idx / ns], &img[idx % ns]);
                let truth = mstr(&de9im(&a.ag, &b.ag));
                acc.class(format!("{}x{}:{}", a.ty(), b.ty(), truth));
                acc.sample(idx, || json!({"a": a.wkt(), "b": b.wkt(), "true_matrix": truth, "map": f.name}));
                acc.evals += 1;
                let got = guard(|| relate_concrete(&a.g, &b.g)).unwrap_or_else(|e| format!("panic:{}", e));
                if got != truth {
                    acc.viol(format!("relate[affine image] {}x{} true={} got={}", a.ty(), b.ty(), truth, got), idx, || json!({"a": a.wkt(), "b": b.wkt(), "true": truth, "got": got, "map": f.name}));
                }
            });
        }
    }
    if !run.ctx.quick() {
        let g4 = families(&cfg_g4());
        let n4 = g4.len();
        run.extra.insert("g4_shapes".into(), json!(n4));
        run.stage("pairs-G4", n4 * n4, |idx, acc| {
            let (a, b) = (&g4[idx / n4], &g4[idx % n4]);
            let truth = mstr(&de9im(&a.ag, &b.ag));
            acc.class(format!("{}x{}:{}", a.ty(), b.ty(), truth));
            acc.evals += 1;
            let got = guard(|| relate_concrete(&a.g, &b.g)).unwrap_or_else(|e| format!("panic:{}", e));
            if got != truth {
                acc.viol(format!("relate[concrete] {}x{} true={} got={}", a.ty(), b.ty(), truth, got), idx, || {
                    json!({"a": a.wkt(), "b": b.wkt(), "true": truth, "got": got})
                });
            }
        });
    }
    // near-collinear fans: two edges leaving a common node in almost the same direction (non-lattice, ill-conditioned);
    // the true matrix follows from exact big-integer orientation of the three points alone
    {
        use crate::bigf::{self, next_up, F2};
        use geo::{Coord, Geometry, Line, LineString, Polygon};
        // expected matrices taken from the exact kernel on a lattice analogue of each configuration
        let tri = AG::Polys(vec![Poly { shell: vec![(0, 0), (4, 0), (0, 4)], holes: vec![] }]);
        let seg_in = AG::Lines(vec![vec![(0, 0), (1, 1)]]);
        let seg_out = AG::Lines(vec![vec![(0, 0), (1, -1)]]);
        let l1 = AG::Lines(vec![vec![(0, 0), (4, 0)]]);
        let l2 = AG::Lines(vec![vec![(0, 0), (3, 1)]]);
        let exp_ll = mstr(&de9im(&l1, &l2)); // two segments sharing exactly one endpoint
        let exp_pl_in = mstr(&de9im(&tri, &seg_in));
        let exp_pl_out = mstr(&de9im(&tri, &seg_out));
        struct Fan {
            name: &'static str,
            p0: F2,
            p1: F2,
            apex: F2, // third triangle corner, far to the left of p0->p1
            centre: F2,
            int_step: bool,
        }
        let fans = vec![
            Fan { name: "decimal (10,1)", p0: (0.0, 0.0), p1: (10.0, 1.0), apex: (-1.0, 10.0), centre: (5.0, 0.5), int_step: false },
            Fan { name: "decimal (9,7)", p0: (0.0, 0.0), p1: (9.0, 7.0), apex: (-7.0, 9.0), centre: (0.9, 0.7), int_step: false },
            Fan { name: "fibonacci 1e8", p0: (0.0, 0.0), p1: (102334155.0, 63245986.0), apex: (-63245986.0, 102334155.0), centre: (63245986.0, 39088169.0), int_step: true },
            Fan { name: "offset 1e8", p0: (100000000.0, 100000000.0), p1: (100000010.0, 100000001.0), apex: (99999999.0, 100000010.0), centre: (100000005.0, 100000000.5), int_step: false },
            Fan { name: "steep negative", p0: (-3.0, 7.0), p1: (-2.9, -23.0), apex: (30.0, 7.1), centre: (-2.95, -8.0), int_step: false },
        ];
        let w: i64 = run.ctx.pick(32, 128);
        let ww = (w * w) as usize;
        run.stage("near-collinear-fans", fans.len() * ww, |idx, acc| {
            let f = &fans[idx / ww];
            let k = (idx % ww) as i64;
            let (i, j) = (k / w - w / 2, k % w - w / 2);
            let p2: F2 = if f.int_step { (f.centre.0 + i as f64, f.centre.1 + j as f64) } else { (next_up(f.centre.0, i), next_up(f.centre.1, j)) };
            let o = bigf::orient(f.p0, f.p1, p2);
            if o == 0 {
                acc.count("exactly collinear window points (skipped)", 1);
                return;
            }
            let co = |p: F2| Coord { x: p.0, y: p.1 };
            let (a_line, b_line) = (Geometry::Line(Line::new(co(f.p0), co(f.p1))), Geometry::Line(Line::new(co(f.p0), co(p2))));
            let a_ls = Geometry::LineString(LineString::new(vec![co(f.p1), co(f.p0)]));
            let b_ls = Geometry::LineString(LineString::new(vec![co(f.p0), co(p2)]));
            let poly = Geometry::Polygon(Polygon::new(LineString::new(vec![co(f.p0), co(f.p1), co(f.apex), co(f.p0)]), vec![]));
            // the apex must be strictly left of p0->p1 for the analogue to apply
            debug_assert!(bigf::orient(f.p0, f.p1, f.apex) > 0);
            let inside = bigf::point_in_ring(&[f.p0, f.p1, f.apex], p2);
            acc.class(format!("fan {} side{} inside{}", f.name, o, inside));
            acc.sample(idx, || json!({"fan": f.name, "p0": [f.p0.0, f.p0.1], "p1": [f.p1.0, f.p1.1], "p2": [p2.0, p2.1], "exact_orientation": o}));
            let mut cases: Vec<(&str, &Geometry<f64>, &Geometry<f64>, String)> = vec![
                ("Line x Line", &a_line, &b_line, exp_ll.clone()),
                ("LineString x LineString", &a_ls, &b_ls, exp_ll.clone()),
                ("Line x LineString", &b_line, &a_ls, exp_ll.clone()),
            ];
            if inside == 2 {
                cases.push(("Polygon x Line", &poly, &b_line, exp_pl_in.clone()));
                cases.push(("Line x Polygon", &b_line, &poly, mstr(&transpose(&de9im(&tri, &seg_in)))));
            } else if inside == 0 && o < 0 {
                cases.push(("Polygon x Line", &poly, &b_line, exp_pl_out.clone()));
                cases.push(("LineString x Polygon", &b_ls, &poly, mstr(&transpose(&de9im(&tri, &seg_out)))));
            }
            for (what, a, b, want) in cases {
                acc.evals += 1;
                let got = guard(|| relate_concrete(a, b)).unwrap_or_else(|e| format!("panic:{}", e));
                if got != want {
                    acc.viol(format!("relate on a near-collinear fan: {} true={} got={} [{}]", what, want, got, f.name), idx, || {
                        json!({"a": format!("{:?}", a), "b": format!("{:?}", b), "true": want, "got": got, "exact_orientation_of_p2": o})
                    });
                }
            }
        });
    }
    // isolated points and line ends within a few ulps of a slanted polygon edge (the point-in-area location behind relate's isolated-component
    // labelling): every point of an ulp window, the ring written in both directions, both operand orders; truth from exact big-integer point location
    {
        use crate::bigf::{self, next_up};
        use geo::{Coord, Geometry, LineString, Point, Polygon};
        let tris: Vec<[(f64, f64); 3]> = vec![[(-12.0, -12.0), (24.0, -12.0), (24.0, 24.0)], [(0.1, 0.3), (1234567.9, 0.3), (1234567.9, 7654321.3)], [(-7.0, -21.0), (0.0, -210.0), (-70.0, -210.0)]];
        let centres: Vec<(f64, f64)> = vec![(0.5, 0.5), (617284.0, 3827160.8), (-14.0, -42.0)];
        let w: i64 = run.ctx.pick(24, 96);
        let ww = (w * w) as usize;
        run.stage("point-near-slanted-edge", tris.len() * ww * 2, |idx, acc| {
            let rev = idx % 2 == 1;
            let (ti, k) = ((idx / 2) / ww, ((idx / 2) % ww) as i64);
            let (i, j) = (k / w - w / 2, k % w - w / 2);
            let c = (next_up(centres[ti].0, i), next_up(centres[ti].1, j));
            let t = tris[ti];
            let pos = bigf::point_in_ring(&t, c); // 0 outside, 1 boundary, 2 inside
            let mut ring = vec![t[0], t[1], t[2], t[0]];
            if rev {
                ring.reverse();
            }
            let pg = Geometry::Polygon(Polygon::new(LineString::from(ring), vec![]));
            let pt = Geometry::Point(Point(Coord { x: c.0, y: c.1 }));
            let (want_pa, want_ap) = match pos {
                2 => ("0FFFFF212", "0F2FF1FF2"),
                1 => ("F0FFFF212", "FF20F1FF2"),
                _ => ("FF0FFF212", "FF2FF10F2"),
            };
            acc.class(format!("point-near-edge {} pos{} rev{}", ti, pos, rev));
            acc.sample(idx, || json!({"polygon": format!("{:?}", pg), "point": [c.0, c.1], "exact_position": pos}));
            for (what, got, want) in [("Point x Polygon", guard(|| relate_concrete(&pt, &pg)), want_pa), ("Polygon x Point", guard(|| relate_concrete(&pg, &pt)), want_ap)] {
                acc.evals += 1;
                let got = got.unwrap_or_else(|e| format!("panic:{}", e));
                if got != want {
                    acc.viol(format!("relate of a point within a few ulps of a slanted polygon edge: {} true={} got={}", what, want, got), idx, || json!({"polygon": format!("{:?}", pg), "point": [c.0, c.1], "bits": format!("{:016x} {:016x}", c.0.to_bits(), c.1.to_bits()), "true": want, "got": got}));
                }
            }
        });
    }
    // variant pass: the same point sets written differently
    let vstride = run.ctx.pick(9, 2);
    let base: Vec<&Shape> = shapes
        .iter()
        .filter(|s| !matches!(s.fam, "RC" | "TR" | "GCpt" | "GCln" | "GCpg" | "LSc"))
        .step_by(vstride)
        .collect();
    let full = !run.ctx.quick();
    let vars: Vec<Vec<(String, geo::Geometry<f64>)>> = base.iter().map(|s| variants(&s.ag, full)).collect();
    let nb = base.len();
    run.extra.insert("variant_base_shapes".into(), json!(nb));
    run.stage("variants", nb * nb, |idx, acc| {
        let (i, j) = (idx / nb, idx % nb);
        let truth = mstr(&de9im(&base[i].ag, &base[j].ag));
        acc.sample(idx, || json!({"a_variants": vars[i].iter().map(|v| v.0.clone()).collect::<Vec<_>>(), "b": base[j].wkt(), "true_matrix": truth}));
        for (ta, ga) in &vars[i] {
            for (tb, gb) in &vars[j] {
                acc.evals += 1;
                let got = guard(|| relate_concrete(ga, gb)).unwrap_or_else(|e| format!("panic:{}", e));
                acc.class(format!("var {}x{}:{}", ta, tb, truth));
                if got != truth {
                    acc.viol(format!("relate[variant] {}x{} true={} got={}", ta, tb, truth, got), idx, || {
                        json!({"a": format!("{:?}", ga), "b": format!("{:?}", gb), "true": truth, "got": got})
                    });
                }
            }
        }
    });
    // picked larger configurations: (i) polygons with two or three holes whose bounding boxes overlap although the holes do not, against every lattice
    // point and short segment of a 15x15 window; (ii) a hole touching the shell in the middle of an edge (and two members touching likewise), against
    // every simple MultiLineString of four or five members from a pool of segments, some of which pass exactly through the touch point (more boundary
    // nodes than any small fast path holds)
    {
        use geo::{Geometry, LineString, MultiLineString, MultiPolygon, Point};
        let hosts: Vec<Poly> = vec![
            Poly { shell: vec![(0, 0), (14, 0), (14, 14), (0, 14)], holes: vec![vec![(2, 2), (12, 2), (2, 12)], vec![(11, 11), (6, 11), (11, 6)]] },
            Poly { shell: vec![(0, 0), (14, 0), (14, 14), (0, 14)], holes: vec![vec![(11, 11), (6, 11), (11, 6)], vec![(2, 2), (12, 2), (2, 12)]] },
            Poly { shell: vec![(0, 0), (14, 0), (14, 14), (0, 14)], holes: vec![vec![(1, 1), (9, 1), (1, 9)], vec![(13, 13), (5, 13), (13, 5)], vec![(10, 2), (12, 2), (12, 4)]] },
        ];
        for h in &hosts {
            assert!(poly_valid(h), "host polygon invalid");
        }
        let nq = 15 * 15;
        run.stage("holes-with-overlapping-boxes", hosts.len() * nq * 3, |idx, acc| {
            let h = &hosts[idx / (nq * 3)];
            let (q, form) = ((idx / 3) % nq, idx % 3);
            let p: IP = ((q / 15) as i64, (q % 15) as i64);
            let (ag, g): (AG, Geometry<f64>) = match form {
                0 => (AG::Pts(vec![p]), Geometry::Point(Point(c(p)))),
                1 => (AG::Lines(vec![vec![p, (p.0 + 1, p.1)]]), Geometry::Line(geo::Line::new(c(p), c((p.0 + 1, p.1))))),
                _ => (AG::Lines(vec![vec![p, (p.0, p.1 + 1), (p.0 + 1, p.1 + 1)]]), Geometry::LineString(ls(&[p, (p.0, p.1 + 1), (p.0 + 1, p.1 + 1)]))),
            };
            let hag = AG::Polys(vec![h.clone()]);
            let hg = Geometry::Polygon(poly(h));
            let truth = mstr(&de9im(&hag, &ag));
            let truth_t = mstr(&de9im(&ag, &hag));
            acc.class(format!("overlapping-hole-boxes form{} {}", form, truth));
            acc.evals += 2;
            let got = guard(|| relate_concrete(&hg, &g)).unwrap_or_else(|e| format!("panic:{}", e));
            let got_t = guard(|| relate_concrete(&g, &hg)).unwrap_or_else(|e| format!("panic:{}", e));
            if got != truth || got_t != truth_t {
                acc.viol(format!("relate of a polygon whose holes have overlapping bounding boxes with a {} true={} got={}", ["Point", "Line", "LineString"][form], truth, got), idx, || json!({"polygon": format!("{:?}", hg), "other": format!("{:?}", g), "true": truth, "got": got, "true_transposed": truth_t, "got_transposed": got_t}));
            }
        });
        // (ii)
        let touch_hosts: Vec<(AG, Geometry<f64>)> = {
            let a = Poly { shell: vec![(0, 0), (8, 0), (8, 8), (0, 8)], holes: vec![vec![(4, 0), (6, 2), (2, 2)]] };
            let (t1, t2) = (Poly { shell: vec![(0, 0), (8, 0), (4, 4)], holes: vec![] }, Poly { shell: vec![(4, 4), (8, 8), (0, 8)], holes: vec![] });
            let b = Poly { shell: vec![(0, 0), (8, 0), (8, 8), (0, 8)], holes: vec![vec![(8, 4), (6, 6), (6, 2)]] };
            assert!(poly_valid(&a) && poly_valid(&b) && multipoly_valid(&[t1.clone(), t2.clone()]));
            vec![
                (AG::Polys(vec![a.clone()]), Geometry::Polygon(poly(&a))),
                (AG::Polys(vec![b.clone()]), Geometry::Polygon(poly(&b))),
                (AG::Polys(vec![t1.clone(), t2.clone()]), Geometry::MultiPolygon(MultiPolygon(vec![poly(&t1), poly(&t2)]))),
            ]
        };
        let pool: Vec<Vec<IP>> = vec![
            vec![(2, -2), (4, 0), (5, 1)], vec![(4, -3), (4, 0)], vec![(10, 4), (8, 4), (7, 4)], vec![(3, 3), (4, 4), (5, 5)], vec![(1, 5), (3, 7)], vec![(9, 9), (11, 9)],
            vec![(-2, 1), (-1, 3)], vec![(1, 6), (1, 7)], vec![(5, 6), (7, 7)], vec![(10, -1), (12, 1)], vec![(-3, -3), (-1, -3)], vec![(3, 5), (5, 3)],
            // through a touch point in the middle of a segment (a proper crossing of the other operand's boundary at one of its nodes)
            vec![(3, -2), (5, 2)], vec![(6, 3), (10, 5)], vec![(4, 2), (4, 6)],
        ];
        let mut combos: Vec<Vec<usize>> = vec![];
        for k in [4usize, 5, 6] {
            for sub in crate::enumr::subsets(&(0..pool.len() as i64).map(|i| (i, 0)).collect::<Vec<IP>>(), k) {
                let idxs: Vec<usize> = sub.iter().map(|p| p.0 as usize).collect();
                let members: Vec<Vec<IP>> = idxs.iter().map(|&i| pool[i].clone()).collect();
                if mls_simple(&members) {
                    combos.push(idxs);
                }
            }
        }
        let step = run.ctx.pick(11, 1);
        let combos: Vec<Vec<usize>> = combos.into_iter().step_by(step).collect();
        let nc = combos.len();
        run.stage("touching-rings-vs-many-member-multilinestrings", touch_hosts.len() * nc, |idx, acc| {
            let (hag, hg) = &touch_hosts[idx / nc];
            let members: Vec<Vec<IP>> = combos[idx % nc].iter().map(|&i| pool[i].clone()).collect();
            let mag = AG::Lines(members.clone());
            let mg = Geometry::MultiLineString(MultiLineString(members.iter().map(|m| ls(m)).collect::<Vec<LineString<f64>>>()));
            let truth = mstr(&de9im(hag, &mag));
            let truth_t = mstr(&de9im(&mag, hag));
            acc.class(format!("touching rings vs {}-member MLS {}", members.len(), truth));
            acc.evals += 2;
            let got = guard(|| relate_concrete(hg, &mg)).unwrap_or_else(|e| format!("panic:{}", e));
            let got_t = guard(|| relate_concrete(&mg, hg)).unwrap_or_else(|e| format!("panic:{}", e));
            if got != truth || got_t != truth_t {
                acc.viol(format!("relate of touching rings with a MultiLineString of {} members true={} got={}", members.len(), truth, got), idx, || json!({"areal": format!("{:?}", hg), "lines": format!("{:?}", mg), "true": truth, "got": got, "true_transposed": truth_t, "got_transposed": got_t}));
            }
        });
    }
    run.finish()
}

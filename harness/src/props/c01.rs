//! C01 relate() returns the true DE-9IM matrix.
use crate::build::*;
use crate::engine::*;
use crate::exact::*;
use crate::ops::*;
use serde_json::json;

pub fn cfg(ctx: &Ctx) -> FamCfg {
    if ctx.quick() {
        FamCfg { n: 3, ring_k: 4, ls_k: 3, mpt_m: 2, mls: 3, mpg: true, pgh: true, gc: true, stride: 1, mls_stride: 23, mpg_stride: 14, mls3_stride: 3 }
    } else {
        FamCfg { n: 3, ring_k: 8, ls_k: 4, mpt_m: 3, mls: 3, mpg: true, pgh: true, gc: true, stride: 1, mls_stride: 1, mpg_stride: 1, mls3_stride: 1 }
    }
}

pub fn run(mut run: Run) -> i32 {
    let shapes = families(&cfg(&run.ctx));
    let n = shapes.len();
    let mut fam_counts = std::collections::BTreeMap::new();
    for s in &shapes {
        *fam_counts.entry(s.fam).or_insert(0u64) += 1;
    }
    run.extra.insert("families".into(), json!(fam_counts));
    run.rule = "every ordered pair of the lattice families (DESIGN §3) as concrete types and through the Geometry enum; \
        relate() compared cell by cell with the exact arrangement-based DE-9IM; non-trivial/distinct = distinct (type pair, true matrix) class"
        .into();
    run.assumptions = vec![
        "coordinates restricted to the integer lattice alphabet stated in coverage.families".into(),
        "oracle: exact rational arrangement (harness/src/exact.rs), cross-checked against JTS expected matrices in C01 stage oracle-selfcheck".into(),
    ];
    // conformance of the reference model: it must reproduce JTS's expected matrices
    let (checked, total, bad) = crate::jts::selfcheck();
    run.extra.insert("oracle_cases_crosschecked".into(), json!(checked));
    run.extra.insert("oracle_jts_relate_cases_seen".into(), json!(total));
    if !bad.is_empty() {
        for b in bad.iter().take(10) {
            eprintln!("oracle disagrees with JTS expectation: {}", b);
        }
        panic!("reference kernel disagrees with {} JTS relate cases", bad.len());
    }
    run.stage("pairs", n * n, |idx, acc| {
        let (a, b) = (&shapes[idx / n], &shapes[idx % n]);
        let truth = mstr(&de9im(&a.ag, &b.ag));
        acc.class(format!("{}x{}:{}", a.ty(), b.ty(), truth));
        acc.sample(idx, || json!({"a": a.wkt(), "b": b.wkt(), "true_matrix": truth}));
        for (how, got) in [
            ("concrete", guard(|| relate_concrete(&a.g, &b.g))),
            ("enum", guard(|| relate_enum(&a.g, &b.g))),
        ] {
            acc.evals += 1;
            let got = got.unwrap_or_else(|e| format!("panic:{}", e));
            if got != truth {
                acc.viol(format!("relate[{}] {}x{} true={} got={}", how, a.ty(), b.ty(), truth, got), idx, || {
                    json!({"a": a.wkt(), "b": b.wkt(), "true": truth, "got": got})
                });
            }
        }
    });
    // variant pass: the same point sets written differently
    let vstride = run.ctx.pick(9, 2);
    let base: Vec<&Shape> = shapes
        .iter()
        .filter(|s| !matches!(s.fam, "RC" | "TR" | "GCpt" | "GCln" | "GCpg" | "LSc"))
        .step_by(vstride)
        .collect();
    let full = !run.ctx.quick();
    let vars: Vec<Vec<(String, geo::Geometry<f64>)>> = base.iter().map(|s| variants(&s.ag, full)).collect();
    let nb = base.len();
    run.extra.insert("variant_base_shapes".into(), json!(nb));
    run.stage("variants", nb * nb, |idx, acc| {
        let (i, j) = (idx / nb, idx % nb);
        let truth = mstr(&de9im(&base[i].ag, &base[j].ag));
        acc.sample(idx, || json!({"a_variants": vars[i].iter().map(|v| v.0.clone()).collect::<Vec<_>>(), "b": base[j].wkt(), "true_matrix": truth}));
        for (ta, ga) in &vars[i] {
            for (tb, gb) in &vars[j] {
                acc.evals += 1;
                let got = guard(|| relate_concrete(ga, gb)).unwrap_or_else(|e| format!("panic:{}", e));
                acc.class(format!("var {}x{}:{}", ta, tb, truth));
                if got != truth {
                    acc.viol(format!("relate[variant] {}x{} true={} got={}", ta, tb, truth, got), idx, || {
                        json!({"a": format!("{:?}", ga), "b": format!("{:?}", gb), "true": truth, "got": got})
                    });
                }
            }
        }
    });
    run.finish()
}

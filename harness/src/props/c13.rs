//! C13 Affine transforms obey matrix algebra and commute with the algorithms.
use crate::build::*;
use crate::engine::*;
use crate::enumr::*;
use crate::exact::*;
use crate::ops::*;
use geo::algorithm::validation::Validation;
use geo::{AffineOps, AffineTransform, Area, BoundingRect, Centroid, ConvexHull, Coord, Distance, Euclidean, Geometry, Length, MapCoords, Point, Rotate, Scale, Skew, Translate, Winding};
use serde_json::json;

fn mats(range: i64) -> Vec<[i64; 6]> {
    let mut v = vec![];
    let r: Vec<i64> = (-range..=range).collect();
    for &a in &r {
        for &b in &r {
            for &d in &r {
                for &e in &r {
                    for xo in -1..=1 {
                        for yo in -1..=1 {
                            v.push([a, b, xo, d, e, yo]);
                        }
                    }
                }
            }
        }
    }
    v
}
fn apply_ref(m: &[i64; 6], c: (i64, i64)) -> (i64, i64) {
    (m[0] * c.0 + m[1] * c.1 + m[2], m[3] * c.0 + m[4] * c.1 + m[5])
}
fn tf(m: &[i64; 6]) -> AffineTransform<f64> {
    AffineTransform::new(m[0] as f64, m[1] as f64, m[2] as f64, m[3] as f64, m[4] as f64, m[5] as f64)
}
fn ti(m: &[i64; 6]) -> AffineTransform<i64> {
    AffineTransform::new(m[0], m[1], m[2], m[3], m[4], m[5])
}

pub fn run(mut run: Run) -> i32 {
    let quick = run.ctx.quick();
    run.rule = "algebra: all ordered pairs of integer affine matrices (linear part in {-1,0,1}^4 quick / {-2..2}^4 thorough, translation in {-1,0,1}^2) x all 3x3 lattice coordinates, as f64 and i64: compose(a,b).apply == b.apply(a.apply), compose_many, inverse None iff det=0 and inverse undoes; \
        constructors and Rotate/Scale/Skew/Translate trait methods (around centroid / bounding-box centre / point, _mut forms) against the documented matrix for angles {0,+-90,180,270,360,45,30} and factors {1/2,1,2,-1}; \
        commutation: the 8 maps of D4 x translations {0,(7,-3)} x scalings {1/2,1,2} (all exact in f64) applied to ordered pairs of lattice shapes: relate, intersects/contains/within, is_valid unchanged, area x s^2, length/distance x s, centroid/bounding rect equivariant, hull vertex set equivariant, winding flips under reflections"
        .into();
    run.assumptions = vec!["inverse on integer matrices is checked only where the exact inverse is integral (unimodular)".into()];
    let ms = mats(if quick { 1 } else { 2 });
    let nm = ms.len();
    let g3 = grid(3);
    run.extra.insert("matrices".into(), json!(nm));
    run.stage("compose-pairs", nm * nm, |idx, acc| {
        let (a, b) = (&ms[idx / nm], &ms[idx % nm]);
        let (fa, fb, ia, ib) = (tf(a), tf(b), ti(a), ti(b));
        let (fc, ic) = (fa.compose(&fb), ia.compose(&ib));
        acc.evals += 2;
        acc.sample(idx, || json!({"a": format!("{:?}", a), "b": format!("{:?}", b)}));
        for &c in &g3 {
            let want = apply_ref(b, apply_ref(a, c));
            let gf = fc.apply(Coord { x: c.0 as f64, y: c.1 as f64 });
            let gi = ic.apply(Coord { x: c.0, y: c.1 });
            if (gf.x, gf.y) != (want.0 as f64, want.1 as f64) || (gi.x, gi.y) != want {
                acc.viol("compose(a,b).apply(c) != b.apply(a.apply(c))".into(), idx, || json!({"a": format!("{:?}", a), "b": format!("{:?}", b), "c": format!("{:?}", c), "expected": format!("{:?}", want), "got_f64": format!("{:?}", gf), "got_i64": format!("{:?}", gi)}));
                return;
            }
        }
        if idx % nm < 27 {
            // compose_many with a third matrix
            let t = &ms[(idx * 7 + 3) % nm];
            let many = fa.compose_many(&[fb, tf(t)]);
            for &c in &g3 {
                let want = apply_ref(t, apply_ref(b, apply_ref(a, c)));
                let g = many.apply(Coord { x: c.0 as f64, y: c.1 as f64 });
                if (g.x, g.y) != (want.0 as f64, want.1 as f64) {
                    acc.viol("compose_many differs from successive application".into(), idx, || json!({"a": format!("{:?}", a), "b": format!("{:?}", b), "c": format!("{:?}", t)}));
                    return;
                }
            }
        }
    });
    // the chaining methods: t.scaled(..) / translated / rotated / skewed must equal t.compose(&AffineTransform::scale(..)) etc. for every matrix t
    // (also those with off-diagonal terms), in f64 and, for scale and translate, in i64
    run.stage("chained-constructors", nm, |idx, acc| {
        let a = &ms[idx];
        let (fa, ia) = (tf(a), ti(a));
        acc.class(format!("chain offdiag{}", a[1] != 0 || a[3] != 0));
        let same = |x: &AffineTransform<f64>, y: &AffineTransform<f64>| -> bool {
            [(x.a(), y.a()), (x.b(), y.b()), (x.xoff(), y.xoff()), (x.d(), y.d()), (x.e(), y.e()), (x.yoff(), y.yoff())].iter().all(|(p, q)| (p - q).abs() <= 1e-12 * (1.0 + q.abs()))
        };
        for (fx, fy, o) in [(3.0, 3.0, (2.0, -1.0)), (0.5, 2.0, (0.0, 0.0)), (-1.0, 4.0, (1.0, 1.0))] {
            acc.evals += 2;
            let (got, want) = (fa.scaled(fx, fy, o), fa.compose(&AffineTransform::scale(fx, fy, o)));
            if !same(&got, &want) {
                acc.viol("scaled() differs from compose(scale())".into(), idx, || json!({"matrix": format!("{:?}", a), "scale": [fx, fy], "origin": format!("{:?}", o), "got": format!("{:?}", got), "expected": format!("{:?}", want)}));
            }
            let (fxi, fyi, oi) = (fx as i64 * 2 + 1, fy as i64 + 2, (o.0 as i64, o.1 as i64));
            let (goti, wanti) = (ia.scaled(fxi, fyi, oi), ia.compose(&AffineTransform::scale(fxi, fyi, oi)));
            if goti != wanti {
                acc.viol("scaled() differs from compose(scale()) (i64)".into(), idx, || json!({"matrix": format!("{:?}", a), "scale": [fxi, fyi], "origin": format!("{:?}", oi), "got": format!("{:?}", goti), "expected": format!("{:?}", wanti)}));
            }
        }
        for (dx, dy) in [(7.0, -3.0), (0.5, 1e8)] {
            acc.evals += 2;
            let (got, want) = (fa.translated(dx, dy), fa.compose(&AffineTransform::translate(dx, dy)));
            if !same(&got, &want) {
                acc.viol("translated() differs from compose(translate())".into(), idx, || json!({"matrix": format!("{:?}", a), "offset": [dx, dy], "got": format!("{:?}", got), "expected": format!("{:?}", want)}));
            }
            let (goti, wanti) = (ia.translated(dx as i64 + 2, -3), ia.compose(&AffineTransform::translate(dx as i64 + 2, -3)));
            if goti != wanti {
                acc.viol("translated() differs from compose(translate()) (i64)".into(), idx, || json!({"matrix": format!("{:?}", a), "got": format!("{:?}", goti), "expected": format!("{:?}", wanti)}));
            }
        }
        for (deg, o) in [(90.0, (1.0, -2.0)), (33.0, (0.0, 0.0))] {
            acc.evals += 2;
            let (got, want) = (fa.rotated(deg, o), fa.compose(&AffineTransform::rotate(deg, o)));
            if !same(&got, &want) {
                acc.viol("rotated() differs from compose(rotate())".into(), idx, || json!({"matrix": format!("{:?}", a), "degrees": deg, "got": format!("{:?}", got), "expected": format!("{:?}", want)}));
            }
            let (got, want) = (fa.skewed(deg / 3.0, 20.0, o), fa.compose(&AffineTransform::skew(deg / 3.0, 20.0, o)));
            if !same(&got, &want) {
                acc.viol("skewed() differs from compose(skew())".into(), idx, || json!({"matrix": format!("{:?}", a), "got": format!("{:?}", got), "expected": format!("{:?}", want)}));
            }
        }
    });
    run.stage("inverse", nm, |idx, acc| {
        let a = &ms[idx];
        let det = a[0] * a[4] - a[1] * a[3];
        let fa = tf(a);
        acc.evals += 2;
        acc.class(format!("det{}", det));
        let inv = fa.inverse();
        if inv.is_none() != (det == 0) {
            acc.viol("inverse() is None exactly for singular matrices: violated (f64)".into(), idx, || json!({"matrix": format!("{:?}", a), "det": det, "inverse": format!("{:?}", inv)}));
            return;
        }
        if let Some(inv) = inv {
            for &c in &g3 {
                let p = Coord { x: c.0 as f64, y: c.1 as f64 };
                let back = inv.apply(fa.apply(p));
                let back2 = fa.compose(&inv).apply(p);
                let tol = if det.abs().count_ones() == 1 { 0.0 } else { 1e-12 };
                if (back.x - p.x).abs() > tol || (back.y - p.y).abs() > tol || (back2.x - p.x).abs() > tol || (back2.y - p.y).abs() > tol {
                    acc.viol("inverse does not undo the transform (f64)".into(), idx, || json!({"matrix": format!("{:?}", a), "c": format!("{:?}", c), "got": format!("{:?} / {:?}", back, back2)}));
                    return;
                }
            }
        }
        let ii = ti(a).inverse();
        if ii.is_none() != (det == 0) {
            acc.viol("inverse() is None exactly for singular matrices: violated (i64)".into(), idx, || json!({"matrix": format!("{:?}", a), "det": det, "inverse": format!("{:?}", ii)}));
        } else if det.abs() == 1 {
            let ii = ii.unwrap();
            for &c in &g3 {
                let p = Coord { x: c.0, y: c.1 };
                if ii.apply(ti(a).apply(p)) != p {
                    acc.viol("inverse does not undo a unimodular integer transform (i64)".into(), idx, || json!({"matrix": format!("{:?}", a)}));
                    return;
                }
            }
        }
    });
    // constructors and traits
    let mut fam = families(&FamCfg { n: 3, ring_k: 4, ls_k: 3, mpt_m: 2, mls: 2, mpg: true, pgh: true, gc: true, stride: 3, mls_stride: 97, mpg_stride: 31, mls3_stride: 1 });
    // degenerate representations: line strings and rings of one or two coordinates, alone and as members (they count as closed)
    {
        use geo::{GeometryCollection, LineString, MultiLineString, Polygon};
        let one = LineString::new(vec![Coord { x: 1.0, y: 2.0 }]);
        let two = LineString::new(vec![Coord { x: 2.0, y: 1.0 }, Coord { x: 2.0, y: 1.0 }]);
        let seg = LineString::new(vec![Coord { x: 0.0, y: 0.0 }, Coord { x: 2.0, y: 1.0 }]);
        let sq = LineString::new(vec![Coord { x: 0.0, y: 0.0 }, Coord { x: 2.0, y: 0.0 }, Coord { x: 2.0, y: 2.0 }, Coord { x: 0.0, y: 2.0 }, Coord { x: 0.0, y: 0.0 }]);
        for g in [
            Geometry::LineString(one.clone()),
            Geometry::LineString(two.clone()),
            Geometry::MultiLineString(MultiLineString(vec![seg.clone(), one.clone(), two.clone()])),
            Geometry::Polygon(Polygon::new(one.clone(), vec![])),
            Geometry::Polygon(Polygon::new(sq.clone(), vec![one.clone()])),
            Geometry::GeometryCollection(GeometryCollection(vec![Geometry::LineString(one.clone()), Geometry::LineString(seg.clone())])),
        ] {
            fam.push(Shape::new(AG::Pts(vec![(1, 2)]), g, "DEGEN1"));
        }
    }
    let nf = fam.len();
    let angles = [0.0, 90.0, -90.0, 180.0, 270.0, 360.0, 45.0, 30.0];
    let factors = [0.5, 1.0, 2.0, -1.0];
    run.stage("constructors-and-traits", nf, |idx, acc| {
        let s = &fam[idx];
        let g = &s.g;
        let cs: Vec<Coord<f64>> = {
            use geo::CoordsIter;
            g.coords_iter().collect()
        };
        let ext = 16.0;
        let same = |a: &Geometry<f64>, b: &Geometry<f64>| -> bool {
            use geo::CoordsIter;
            let (x, y): (Vec<Coord<f64>>, Vec<Coord<f64>>) = (a.coords_iter().collect(), b.coords_iter().collect());
            std::mem::discriminant(a) == std::mem::discriminant(b) && x.len() == y.len() && x.iter().zip(&y).all(|(p, q)| (p.x - q.x).abs() <= 1e-9 * ext && (p.y - q.y).abs() <= 1e-9 * ext)
        };
        let w = |what: &str, got: &Geometry<f64>, want: &Geometry<f64>| json!({"geometry": format!("{:?}", g), "op": what, "got": format!("{:?}", got), "documented": format!("{:?}", want)});
        let pt = Point::new(1.0, -2.0);
        let centroid = g.centroid();
        // the documented origin of scale/skew/rotate_around_center is the centre of the bounding box: taken here from the traversed coordinates, not from
        // geo's bounding_rect (which is what the implementation uses and is checked on its own by C19)
        let center: Option<Coord<f64>> = if cs.is_empty() {
            None
        } else {
            let (mut x0, mut y0, mut x1, mut y1) = (f64::INFINITY, f64::INFINITY, f64::NEG_INFINITY, f64::NEG_INFINITY);
            for c in &cs {
                x0 = x0.min(c.x);
                y0 = y0.min(c.y);
                x1 = x1.max(c.x);
                y1 = y1.max(c.y);
            }
            Some(Coord { x: (x0 + x1) / 2.0, y: (y0 + y1) / 2.0 })
        };
        // Rect is re-normalised by map_coords; compare through the polygon form is not possible either (rotation of a Rect yields a Rect of the
        // rotated corners) - skip Rect and Triangle for the coordinate-wise comparison under rotations that change orientation/normalisation
        let normalising = matches!(g, Geometry::Rect(_) | Geometry::Triangle(_));
        acc.class(format!("{}", s.ty()));
        acc.sample(idx, || json!({"geometry": format!("{:?}", g)}));
        for &deg in &angles {
            let (sn, cs_) = (f64::to_radians(deg).sin(), f64::to_radians(deg).cos());
            let rot = |o: Coord<f64>| g.map_coords(|c| Coord { x: o.x + cs_ * (c.x - o.x) - sn * (c.y - o.y), y: o.y + sn * (c.x - o.x) + cs_ * (c.y - o.y) });
            if normalising {
                continue;
            }
            acc.evals += 6;
            let mut checks: Vec<(&str, Geometry<f64>, Geometry<f64>)> = vec![("rotate_around_point", g.rotate_around_point(deg, pt), rot(pt.0))];
            let mut m = g.clone();
            m.rotate_around_point_mut(deg, pt);
            checks.push(("rotate_around_point_mut", m, rot(pt.0)));
            if let Some(c0) = centroid {
                checks.push(("rotate_around_centroid", g.rotate_around_centroid(deg), rot(c0.0)));
                let mut m = g.clone();
                m.rotate_around_centroid_mut(deg);
                checks.push(("rotate_around_centroid_mut", m, rot(c0.0)));
            }
            if let Some(c0) = center {
                checks.push(("rotate_around_center", g.rotate_around_center(deg), rot(c0)));
                let mut m = g.clone();
                m.rotate_around_center_mut(deg);
                checks.push(("rotate_around_center_mut", m, rot(c0)));
            }
            checks.push(("affine_transform(rotate)", g.affine_transform(&AffineTransform::rotate(deg, pt)), rot(pt.0)));
            for (what, got, want) in checks {
                if !same(&got, &want) {
                    acc.viol(format!("{} differs from the documented rotation about the documented origin", what), idx, || w(&format!("{} {}deg", what, deg), &got, &want));
                }
            }
        }
        for &fx in &factors {
            for &fy in &factors {
                if normalising && (fx < 0.0 || fy < 0.0) {
                    continue;
                }
                acc.evals += 5;
                let sc = |o: Coord<f64>| g.map_coords(|c| Coord { x: o.x + fx * (c.x - o.x), y: o.y + fy * (c.y - o.y) });
                let mut checks: Vec<(&str, Geometry<f64>, Geometry<f64>)> = vec![("scale_around_point", g.scale_around_point(fx, fy, pt.0), sc(pt.0))];
                let mut m = g.clone();
                m.scale_around_point_mut(fx, fy, pt.0);
                checks.push(("scale_around_point_mut", m, sc(pt.0)));
                if let Some(c0) = center {
                    checks.push(("scale_xy", g.scale_xy(fx, fy), sc(c0)));
                    let mut m = g.clone();
                    m.scale_xy_mut(fx, fy);
                    checks.push(("scale_xy_mut", m, sc(c0)));
                    if fx == fy {
                        checks.push(("scale", g.scale(fx), sc(c0)));
                        let mut m = g.clone();
                        m.scale_mut(fx);
                        checks.push(("scale_mut", m, sc(c0)));
                    }
                }
                for (what, got, want) in checks {
                    if !same(&got, &want) {
                        acc.viol(format!("{} differs from the documented scaling about the documented origin", what), idx, || w(&format!("{} {} {}", what, fx, fy), &got, &want));
                    }
                }
            }
        }
        if !normalising {
            for &(xs, ys) in &[(0.0, 0.0), (45.0, 0.0), (0.0, 30.0), (20.0, -35.0)] {
                acc.evals += 4;
                let (tx, ty) = (f64::to_radians(xs).tan(), f64::to_radians(ys).tan());
                let sk = |o: Coord<f64>| g.map_coords(|c| Coord { x: c.x + tx * (c.y - o.y), y: c.y + ty * (c.x - o.x) });
                let mut checks: Vec<(&str, Geometry<f64>, Geometry<f64>)> = vec![("skew_around_point", g.skew_around_point(xs, ys, pt.0), sk(pt.0))];
                let mut m = g.clone();
                m.skew_around_point_mut(xs, ys, pt.0);
                checks.push(("skew_around_point_mut", m, sk(pt.0)));
                if let Some(c0) = center {
                    checks.push(("skew_xy", g.skew_xy(xs, ys), sk(c0)));
                    let mut m = g.clone();
                    m.skew_xy_mut(xs, ys);
                    checks.push(("skew_xy_mut", m, sk(c0)));
                    if xs == ys {
                        checks.push(("skew", g.skew(xs), sk(c0)));
                    }
                }
                for (what, got, want) in checks {
                    if !same(&got, &want) {
                        acc.viol(format!("{} differs from the documented skew about the documented origin", what), idx, || w(&format!("{} {} {}", what, xs, ys), &got, &want));
                    }
                }
            }
        }
        for &(dx, dy) in &[(0.0, 0.0), (7.0, -3.0), (0.5, 1e8)] {
            acc.evals += 2;
            let want = g.map_coords(|c| Coord { x: c.x + dx, y: c.y + dy });
            let got = g.translate(dx, dy);
            let mut m = g.clone();
            m.translate_mut(dx, dy);
            if got != want || m != want {
                acc.viol("translate differs from adding the offsets".into(), idx, || w("translate", &got, &want));
            }
        }
        let _ = cs;
    });
    // commutation with the algorithms under exact similarity maps
    let d4: [[i64; 4]; 8] = [[1, 0, 0, 1], [0, -1, 1, 0], [-1, 0, 0, -1], [0, 1, -1, 0], [-1, 0, 0, 1], [1, 0, 0, -1], [0, 1, 1, 0], [0, -1, -1, 0]];
    let mut maps: Vec<(AffineTransform<f64>, f64, bool, String)> = vec![];
    for (k, m) in d4.iter().enumerate() {
        for t in [(0.0, 0.0), (7.0, -3.0)] {
            for s in [0.5, 1.0, 2.0] {
                let refl = m[0] * m[3] - m[1] * m[2] < 0;
                maps.push((AffineTransform::new(m[0] as f64 * s, m[1] as f64 * s, t.0, m[2] as f64 * s, m[3] as f64 * s, t.1), s, refl, format!("D4[{}] t={:?} s={}", k, t, s)));
            }
        }
    }
    // far-away scales (2^-30 ~ 1e-9, 2^30 ~ 1e9, 2^-60 and 2^-200, all exact): nothing may depend on an absolute size or an absolute epsilon
    for (k, s, t) in [(0usize, 1.0 / 1073741824.0, (0.0, 0.0)), (3, 1073741824.0, (0.0, 0.0)), (6, 1.0 / 1073741824.0, (1.0 / 1024.0, 0.0)), (1, 2f64.powi(-60), (0.0, 0.0)), (4, 2f64.powi(-200), (0.0, 0.0))] {
        let m = d4[k];
        let refl = m[0] * m[3] - m[1] * m[2] < 0;
        maps.push((AffineTransform::new(m[0] as f64 * s, m[1] as f64 * s, t.0, m[2] as f64 * s, m[3] as f64 * s, t.1), s, refl, format!("D4[{}] t={:?} s={:e}", k, t, s)));
    }
    // (the degenerate representations are not valid operands of relate: they take part in the single-geometry stages only)
    let sub: Vec<&Shape> = fam.iter().filter(|s| s.fam != "DEGEN1").step_by(if quick { 3 } else { 1 }).collect();
    let ns = sub.len();
    let nmaps = maps.len();
    run.extra.insert("similarity_maps".into(), json!(nmaps));
    run.stage("commutation-pairs", ns * ns, |idx, acc| {
        let (a, b) = (sub[idx / ns], sub[idx % ns]);
        let r0 = relate_enum(&a.g, &b.g);
        let (i0, c0, w0) = (intersects_concrete(&a.g, &b.g), contains_concrete(&a.g, &b.g), within_concrete(&a.g, &b.g));
        let d0 = distance_enum(&a.g, &b.g);
        acc.class(format!("{}x{} {}", a.ty(), b.ty(), r0));
        acc.sample(idx, || json!({"a": a.wkt(), "b": b.wkt(), "relate": r0}));
        for (mi, (m, s, _refl, name)) in maps.iter().enumerate() {
            // quick tier: every other near map (all eight symmetries still occur, with alternating offset / factor) and every far one
            if quick && mi < 48 && mi % 2 == 1 {
                continue;
            }
            let (ta, tb) = (a.g.affine_transform(m), b.g.affine_transform(m));
            acc.evals += 5;
            let r1 = relate_enum(&ta, &tb);
            let (i1, c1, w1) = (intersects_concrete(&ta, &tb), contains_concrete(&ta, &tb), within_concrete(&ta, &tb));
            let d1 = distance_enum(&ta, &tb);
            let wit = || json!({"a": a.wkt(), "b": b.wkt(), "map": name, "ta": format!("{:?}", ta), "tb": format!("{:?}", tb), "before": format!("{} {} {} {} {}", r0, i0, c0, w0, d0), "after": format!("{} {} {} {} {}", r1, i1, c1, w1, d1)});
            if r1 != r0 {
                acc.viol(format!("relate changes under an exact similarity map ({}x{})", a.ty(), b.ty()), idx, wit);
            }
            if (i1, c1, w1) != (i0, c0, w0) {
                acc.viol(format!("intersects/contains/within change under an exact similarity map ({}x{})", a.ty(), b.ty()), idx, wit);
            }
            // distance scales by s: exact when the squared distance is representable; allow 1e-12 relative
            if (d1 - d0 * s).abs() > 1e-12 * d0.max(1.0) * s {
                acc.viol(format!("distance does not scale by the factor under an exact similarity map ({}x{})", a.ty(), b.ty()), idx, wit);
            }
        }
    });
    run.stage("commutation-single", nf, |idx, acc| {
        let g = &fam[idx].g;
        let area0 = g.signed_area();
        let valid0 = crate::with_geom!(g, x => x.is_valid());
        let cen0 = g.centroid();
        let br0 = g.bounding_rect();
        let hull0: Vec<(f64, f64)> = { let mut v: Vec<(f64, f64)> = g.convex_hull().exterior().0.iter().map(|c| (c.x, c.y)).collect(); v.sort_by(|a, b| a.partial_cmp(b).unwrap()); v.dedup(); v };
        let len0 = match g {
            Geometry::LineString(l) => Some(Euclidean.length(l)),
            Geometry::Line(l) => Some(Euclidean.length(l)),
            Geometry::MultiLineString(l) => Some(Euclidean.length(l)),
            _ => None,
        };
        let wind0 = match g {
            Geometry::Polygon(p) => p.exterior().winding_order(),
            Geometry::LineString(l) if l.is_closed() && l.0.len() >= 4 => l.winding_order(),
            _ => None,
        };
        acc.class(format!("single {}", tname(g)));
        // the polygon's exterior written from its least vertex with the closing coordinate repeated (.., p0, p0): the same ring
        let dup_ring: Option<geo::LineString<f64>> = match g {
            Geometry::Polygon(p) if p.exterior().0.len() >= 4 => {
                let open = &p.exterior().0[..p.exterior().0.len() - 1];
                let k = (0..open.len()).min_by(|&i, &j| (open[i].x, open[i].y).partial_cmp(&(open[j].x, open[j].y)).unwrap()).unwrap();
                let mut v: Vec<Coord<f64>> = (0..open.len()).map(|i| open[(i + k) % open.len()]).collect();
                v.push(v[0]);
                v.push(v[0]);
                Some(geo::LineString::new(v))
            }
            _ => None,
        };
        if let Some(d) = &dup_ring {
            if d.winding_order() != wind0 {
                acc.viol("winding order of a ring changes when it is written from its least vertex with a repeated closing coordinate".into(), idx, || json!({"ring": format!("{:?}", d), "expected": format!("{:?}", wind0), "got": format!("{:?}", d.winding_order())}));
            }
        }
        for (m, s, refl, name) in &maps {
            let t = g.affine_transform(m);
            if let Some(d) = &dup_ring {
                let (w0, w1) = (d.winding_order(), d.affine_transform(m).winding_order());
                acc.evals += 1;
                let consistent = match (w0, w1) { (None, None) => true, (Some(a), Some(b)) => (a != b) == *refl, _ => false };
                if !consistent {
                    acc.viol("winding order of a ring with a repeated closing coordinate is not carried through an exact similarity map".into(), idx, || json!({"ring": format!("{:?}", d), "map": name, "before": format!("{:?}", w0), "after": format!("{:?}", w1)}));
                }
            }
            acc.evals += 6;
            let wit = |what: &str| json!({"geometry": format!("{:?}", g), "map": name, "transformed": format!("{:?}", t), "what": what});
            // Rect and Triangle re-normalise their corner order when rebuilt (documented; C19 known finding for Triangle), so the *sign* of their
            // area is not carried through a map; for them, and for collections holding one, the unsigned area is compared
            fn has_normalising_member(g: &Geometry<f64>) -> bool {
                match g {
                    Geometry::Rect(_) | Geometry::Triangle(_) => true,
                    Geometry::GeometryCollection(gc) => gc.0.iter().any(has_normalising_member),
                    _ => false,
                }
            }
            let normalised = has_normalising_member(g);
            let (u0, u1) = (g.unsigned_area(), t.unsigned_area());
            if (u1 - u0 * s * s).abs() > 1e-12 * (1.0 + u0) * s * s {
                acc.viol("unsigned area does not scale by s^2".into(), idx, || wit(&format!("unsigned area {} -> {}", u0, u1)));
            }
            let a1 = t.signed_area();
            let want_area = if *refl && !normalised { -area0 } else { area0 } * s * s;
            if (a1 - want_area).abs() > 1e-12 * (1.0 + area0.abs()) * s * s && !normalised {
                acc.viol("area does not scale by s^2 (with sign flip under reflection)".into(), idx, || wit(&format!("area {} -> {}", area0, a1)));
            }
            if crate::with_geom!(&t, x => x.is_valid()) != valid0 {
                acc.viol("is_valid changes under an exact similarity map".into(), idx, || wit("is_valid"));
            }
            match (cen0, t.centroid()) {
                (Some(c0), Some(c1)) => {
                    let e = m.apply(c0.0);
                    if (e.x - c1.x()).abs() > 1e-9 * s || (e.y - c1.y()).abs() > 1e-9 * s {
                        acc.viol("centroid is not equivariant under an exact similarity map".into(), idx, || wit(&format!("{:?} -> {:?}", c0, c1)));
                    }
                }
                (None, None) => {}
                _ => acc.viol("centroid None/Some changes under a similarity map".into(), idx, || wit("centroid")),
            }
            if let (Some(b0), Some(b1)) = (br0, t.bounding_rect()) {
                let (p, q) = (m.apply(b0.min()), m.apply(b0.max()));
                let e = geo::Rect::new(p, q);
                if e != b1 {
                    acc.viol("bounding_rect is not equivariant under an exact similarity map".into(), idx, || wit(&format!("{:?} -> {:?}", b0, b1)));
                }
            }
            let mut hull1: Vec<(f64, f64)> = t.convex_hull().exterior().0.iter().map(|c| (c.x, c.y)).collect();
            hull1.sort_by(|a, b| a.partial_cmp(b).unwrap());
            hull1.dedup();
            let mut want_hull: Vec<(f64, f64)> = hull0.iter().map(|&(x, y)| { let c = m.apply(Coord { x, y }); (c.x, c.y) }).collect();
            want_hull.sort_by(|a, b| a.partial_cmp(b).unwrap());
            if hull1 != want_hull {
                acc.viol("convex hull vertex set is not equivariant under an exact similarity map".into(), idx, || wit(&format!("{:?} vs {:?}", hull1, want_hull)));
            }
            if let Some(l0) = len0 {
                let l1 = match &t {
                    Geometry::LineString(l) => Euclidean.length(l),
                    Geometry::Line(l) => Euclidean.length(l),
                    Geometry::MultiLineString(l) => Euclidean.length(l),
                    _ => unreachable!(),
                };
                if (l1 - l0 * s).abs() > 1e-12 * (1.0 + l0) * s {
                    acc.viol("length does not scale by the factor".into(), idx, || wit(&format!("{} -> {}", l0, l1)));
                }
            }
            // simplification keeps the same vertex positions when the tolerance is scaled with the map (distance tolerance by s, area tolerance by s^2)
            if let (Geometry::LineString(l0), Geometry::LineString(l1)) = (g, &t) {
                use geo::{SimplifyIdx, SimplifyVwIdx};
                for eps in [0.5, 1.0] {
                    acc.evals += 2;
                    if l0.simplify_idx(eps) != l1.simplify_idx(eps * s) {
                        acc.viol("simplify_idx changes under an exact similarity map (tolerance scaled by s)".into(), idx, || wit(&format!("eps {} : {:?} vs {:?}", eps, l0.simplify_idx(eps), l1.simplify_idx(eps * s))));
                    }
                    if l0.simplify_vw_idx(eps) != l1.simplify_vw_idx(eps * s * s) {
                        acc.viol("simplify_vw_idx changes under an exact similarity map (tolerance scaled by s^2)".into(), idx, || wit(&format!("eps {} : {:?} vs {:?}", eps, l0.simplify_vw_idx(eps), l1.simplify_vw_idx(eps * s * s))));
                    }
                }
            }
            let ring1 = match &t {
                Geometry::Polygon(p) => Some(p.exterior().clone()),
                Geometry::LineString(l) if l.is_closed() && l.0.len() >= 4 => Some(l.clone()),
                _ => None,
            };
            if wind0.is_none() && ring1.as_ref().map_or(false, |r| r.winding_order().is_some()) {
                acc.viol("winding order is None before and Some after an exact similarity map".into(), idx, || wit("winding None -> Some"));
            }
            if let (Some(w0), Some(p)) = (wind0, ring1.as_ref()) {
                let w1 = p.winding_order();
                let flipped = w1 != Some(w0);
                if flipped != *refl {
                    acc.viol("winding order does not flip exactly under reflections".into(), idx, || wit(&format!("{:?} -> {:?}", w0, w1)));
                }
            }
        }
    });
    run.finish()
}

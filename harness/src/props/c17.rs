//! C17 PreparedGeometry answers exactly like the plain geometry, for every operand position and every reuse history.
use crate::build::*;
use crate::engine::*;
use crate::exact::*;
use crate::ops::*;
use geo::{Geometry, PreparedGeometry, Relate};
use serde_json::json;
use stateright::{Checker, Model, Property};
use std::hash::{Hash, Hasher};
use std::sync::atomic::{AtomicU64, Ordering};
use std::sync::Arc;

fn ags_p(quick: bool) -> Vec<AG> {
    let sq = |x0: i64, y0: i64, x1: i64, y1: i64| Poly { shell: vec![(x0, y0), (x1, y0), (x1, y1), (x0, y1)], holes: vec![] };
    let mut v = vec![
        AG::Polys(vec![sq(0, 0, 2, 2)]),
        AG::Polys(vec![Poly { shell: vec![(0, 0), (3, 0), (3, 3), (0, 3)], holes: vec![vec![(1, 1), (2, 1), (1, 2)]] }]),
        AG::Lines(vec![vec![(0, 0), (2, 2), (3, 0)]]),
        AG::Lines(vec![vec![(0, 0), (1, 1)], vec![(1, 1), (2, 0)], vec![(1, 1), (1, 3)]]),
        AG::Pts(vec![(1, 1), (0, 2)]),
        AG::Polys(vec![sq(0, 0, 1, 1), sq(1, 1, 3, 3)]),
        AG::Lines(vec![vec![(0, 0), (2, 0), (2, 2), (0, 0)]]),
        AG::Pts(vec![(1, 1)]),
        AG::Polys(vec![Poly { shell: vec![(0, 0), (2, 1), (0, 2)], holes: vec![] }]),
        AG::Lines(vec![vec![(0, 1), (3, 1)]]),
    ];
    if !quick {
        for r in crate::enumr::rings(3, 4).into_iter().step_by(9) {
            v.push(AG::Polys(vec![Poly { shell: r.clone(), holes: vec![] }]));
            v.push(AG::Lines(vec![crate::enumr::close(&r)]));
        }
        for l in crate::enumr::polylines(&crate::enumr::grid(3), 3).into_iter().step_by(31) {
            v.push(AG::Lines(vec![l]));
        }
    }
    v
}
fn ags_partner() -> Vec<AG> {
    let sq = |x0: i64, y0: i64, x1: i64, y1: i64| Poly { shell: vec![(x0, y0), (x1, y0), (x1, y1), (x0, y1)], holes: vec![] };
    vec![
        AG::Pts(vec![(0, 0)]),                                 // on a vertex
        AG::Pts(vec![(1, 1)]),                                 // inside / on line
        AG::Lines(vec![vec![(0, 2), (2, 0)]]),                 // proper crossing
        AG::Lines(vec![vec![(0, 0), (0, 3)]]),                 // collinear overlap with x=0 edges
        AG::Lines(vec![vec![(2, 2), (3, 3)]]),                 // touching at a vertex
        AG::Lines(vec![vec![(5, 5), (6, 6)]]),                 // disjoint bounding boxes
        AG::Polys(vec![sq(1, 1, 3, 3)]),                       // overlapping
        AG::Polys(vec![sq(0, 0, 2, 2)]),                       // equal to P0 / sharing edges
        AG::Polys(vec![Poly { shell: vec![(1, 1), (2, 1), (1, 2)], holes: vec![] }]), // isolated inside / fills the hole
        AG::Pts(vec![(0, 0), (1, 1), (4, 4)]),
        AG::Lines(vec![vec![(0, 0), (1, 1)], vec![(1, 1), (2, 0)]]),
        AG::Polys(vec![Poly { shell: vec![(-1, -1), (4, -1), (4, 4), (-1, 4)], holes: vec![vec![(0, 0), (3, 0), (3, 3), (0, 3)]] }]),
    ]
}

/// one step of a history on a prepared geometry. partner index < NPART; mode 0: P.relate(g), 1: g.relate(P),
/// 2: P.relate(prepared g), 3: prepared g .relate(P), 4: clone of P .relate(g) then dropped, 5: P.relate(P)
#[derive(Clone, Copy, Debug, PartialEq, Eq, Hash)]
pub struct Step {
    partner: u8,
    mode: u8,
}
const MODES: u8 = 6;

fn do_step<'a>(p: &PreparedGeometry<'a, &'a Geometry<f64>, f64>, pg: &Geometry<f64>, g: &Geometry<f64>, mode: u8) -> (String, String) {
    // returns (got, expected from the plain geometries)
    match mode {
        0 => (im_string(&p.relate(g)), im_string(&pg.relate(g))),
        1 => (im_string(&g.relate(p)), im_string(&g.relate(pg))),
        2 => {
            let q = PreparedGeometry::from(g);
            (im_string(&p.relate(&q)), im_string(&pg.relate(g)))
        }
        3 => {
            let q = PreparedGeometry::from(g);
            (im_string(&q.relate(p)), im_string(&g.relate(pg)))
        }
        4 => {
            let c = p.clone();
            let r = im_string(&c.relate(g));
            drop(c);
            (r, im_string(&pg.relate(g)))
        }
        _ => (im_string(&p.relate(p)), im_string(&pg.relate(pg))),
    }
}

fn hash_str(s: &str) -> u64 {
    crate::engine::fnv(s)
}

// ---------- explicit-state model: state = complete dump of the prepared geometry ----------
#[derive(Clone, Debug)]
pub struct HSt {
    p: usize,
    hist: Vec<Step>,
    dump: u64,
    ok: bool,
    detail: String,
}
impl PartialEq for HSt {
    fn eq(&self, o: &HSt) -> bool {
        self.p == o.p && self.dump == o.dump && self.ok == o.ok
    }
}
impl Eq for HSt {}
impl Hash for HSt {
    fn hash<H: Hasher>(&self, h: &mut H) {
        self.p.hash(h);
        self.dump.hash(h);
        self.ok.hash(h);
    }
}
pub struct PrepModel {
    ps: Vec<Geometry<f64>>,
    partners: Vec<Geometry<f64>>,
    max_depth: usize,
    transitions: Arc<AtomicU64>,
}
impl PrepModel {
    /// replay a history on a fresh prepared geometry built from the real constructor
    fn replay(&self, p: usize, hist: &[Step]) -> (u64, bool, String) {
        let pg = &self.ps[p];
        let prep = PreparedGeometry::from(pg);
        let mut ok = true;
        let mut detail = String::new();
        for st in hist {
            let (got, exp) = do_step(&prep, pg, &self.partners[st.partner as usize], st.mode);
            if got != exp {
                ok = false;
                detail = format!("step {:?}: got {} expected {}", st, got, exp);
            }
        }
        (hash_str(&prep.verif_state()), ok, detail)
    }
}
impl Model for PrepModel {
    type State = HSt;
    type Action = Step;
    fn init_states(&self) -> Vec<HSt> {
        (0..self.ps.len())
            .map(|p| {
                let (dump, ok, detail) = self.replay(p, &[]);
                HSt { p, hist: vec![], dump, ok, detail }
            })
            .collect()
    }
    fn actions(&self, s: &HSt, out: &mut Vec<Step>) {
        if s.hist.len() >= self.max_depth {
            return;
        }
        for partner in 0..self.partners.len() as u8 {
            for mode in 0..MODES {
                if mode == 5 && partner != 0 {
                    continue;
                }
                out.push(Step { partner, mode });
            }
        }
    }
    fn next_state(&self, s: &HSt, a: Step) -> Option<HSt> {
        self.transitions.fetch_add(1, Ordering::Relaxed);
        let mut hist = s.hist.clone();
        hist.push(a);
        let (dump, ok, detail) = self.replay(s.p, &hist);
        Some(HSt { p: s.p, hist, dump, ok, detail })
    }
    fn properties(&self) -> Vec<Property<Self>> {
        vec![
            Property::always("prepared result equals plain relate", |_, s: &HSt| s.ok),
            Property::always("prepared state unchanged by relate", |m: &PrepModel, s: &HSt| {
                // the dump must equal that of a freshly prepared geometry
                s.dump == m.replay(s.p, &[]).0
            }),
        ]
    }
}

pub fn run(mut run: Run) -> i32 {
    run.rule = "(a) explicit-state search (stateright): state = complete verif_state() dump of the real PreparedGeometry (hook H1) + result flag, \
        transitions = real relate calls in 6 modes x 12 partners, replayed from a fresh object; (b) all histories up to depth k without state merging \
        (differential oracle from non-initial states); (c) every ordered pair of the lattice families with one prepared geometry reused across all partners in both positions"
        .into();
    run.assumptions = vec![
        "verif_state() (guarded hook) dumps every cached/interior-mutable field reachable through &PreparedGeometry; merging states with equal dumps is sound because the dump is complete".into(),
        "equality is with relate() on the plain geometries (C01 ties that to the exact matrix)".into(),
    ];
    let quick = run.ctx.quick();
    let ps: Vec<Geometry<f64>> = ags_p(quick).iter().map(natural).collect();
    let partners: Vec<Geometry<f64>> = ags_partner().iter().map(natural).collect();
    let mut samples = vec![];
    if run.ctx.replay.is_none() {
        let tr = Arc::new(AtomicU64::new(0));
        let m = PrepModel { ps: ps.clone(), partners: partners.clone(), max_depth: run.ctx.pick(3, 4), transitions: tr.clone() };
        let ck = m.checker().threads(16).spawn_bfs().join();
        run.states = ck.unique_state_count() as u64;
        run.transitions = tr.load(Ordering::Relaxed);
        for (name, path) in ck.discoveries() {
            let states = path.into_states();
            let last = states.last().unwrap();
            let kind = last.hist.last().map(|s| format!("mode{}", s.mode)).unwrap_or("init".into());
            run.acc.viol(format!("prepared-history: '{}' violated ({})", name, kind), 0, || {
                json!({"prepared": format!("{:?}", ps[last.p]), "history": last.hist.iter().map(|s| format!("mode{} partner {:?}", s.mode, partners[s.partner as usize])).collect::<Vec<_>>(), "detail": last.detail})
            });
        }
        samples.push(json!({"model": "PreparedGeometry histories", "prepared_geometries": ps.len(), "partners": partners.len(), "modes": MODES,
            "unique_states": ck.unique_state_count(), "transitions": tr.load(Ordering::Relaxed), "max_depth": ck.max_depth()}));
    }
    // (b) unmerged histories
    let acts: Vec<Step> = (0..partners.len() as u8).flat_map(|p| (0..MODES).filter(move |m| *m != 5 || p == 0).map(move |m| Step { partner: p, mode: m })).collect();
    let na = acts.len();
    let depth = run.ctx.pick(2, 3);
    let per_p = na.pow(depth as u32);
    run.stage("histories-unmerged", ps.len() * per_p, |idx, acc| {
        let (p, mut h) = (idx / per_p, idx % per_p);
        let pg = &ps[p];
        let prep = PreparedGeometry::from(pg);
        let before = prep.verif_state();
        let mut hist = vec![];
        for _ in 0..depth {
            hist.push(acts[h % na]);
            h /= na;
        }
        for st in &hist {
            acc.evals += 1;
            let g = &partners[st.partner as usize];
            let r = guard(|| do_step(&prep, pg, g, st.mode));
            match r {
                Ok((got, exp)) => {
                    acc.class(format!("mode{} {}x{} {}", st.mode, tname(pg), tname(g), exp));
                    if got != exp {
                        acc.viol(format!("prepared relate mode{} {}x{} differs from plain", st.mode, tname(pg), tname(g)), idx, || {
                            json!({"prepared": format!("{:?}", pg), "history": format!("{:?}", hist), "partner": format!("{:?}", g), "got": got, "expected": exp})
                        });
                    }
                }
                Err(e) => acc.viol(format!("prepared relate mode{} {}x{} panic", st.mode, tname(pg), tname(g)), idx, || {
                    json!({"prepared": format!("{:?}", pg), "history": format!("{:?}", hist), "panic": e})
                }),
            }
        }
        if prep.verif_state() != before {
            acc.viol("prepared state changed by a history of relate calls".into(), idx, || {
                json!({"prepared": format!("{:?}", pg), "history": format!("{:?}", hist)})
            });
        }
        acc.sample(idx, || json!({"prepared": format!("{:?}", pg), "history": hist.iter().map(|s| format!("mode{} with {:?}", s.mode, partners[s.partner as usize])).collect::<Vec<_>>()}));
    });
    // (c) pair space: one prepared geometry reused against every partner of the families, both positions
    let mut cfg = super::c01::cfg(&run.ctx);
    if quick {
        cfg.mls_stride = 60;
        cfg.mls3_stride = 9;
        cfg.mpg_stride = 20;
    }
    let mut shapes = families(&cfg);
    // mixed-dimension collections (C17 compares with plain relate, so the single-dimension restriction of C01 does not apply):
    // a point / line member lying outside the extent of the other members, nested and flat
    {
        use geo::{GeometryCollection, Point};
        let base: Vec<Shape> = shapes.iter().filter(|s| matches!(s.fam, "PG" | "LN" | "LS" | "RC" | "TR")).step_by(if quick { 17 } else { 5 }).cloned().collect();
        let g3 = crate::enumr::grid(3);
        for (i, b) in base.iter().enumerate() {
            for (j, &p) in g3.iter().enumerate() {
                if (i + j) % 3 != 0 {
                    continue;
                }
                let pt = Geometry::Point(Point(c(p)));
                let members = if (i + j) % 2 == 0 { vec![b.g.clone(), pt] } else { vec![Geometry::GeometryCollection(GeometryCollection(vec![pt])), b.g.clone()] };
                shapes.push(Shape::new(b.ag.clone(), Geometry::GeometryCollection(GeometryCollection(members)), "GCmixed"));
            }
        }
    }
    // degenerate and empty geometries of every type (C17 speaks about every geometry, and only compares with plain relate): zero-length Line,
    // flat Rect, collinear and single-point Triangle, single-point and flat Polygon, one-coordinate LineString, empty geometries, empty members
    {
        use geo::{GeometryCollection, Line, LineString, MultiLineString, MultiPoint, MultiPolygon, Point, Polygon, Rect, Triangle};
        let e = AG::Pts(vec![]);
        let mut deg: Vec<Geometry<f64>> = vec![
            Geometry::Line(Line::new(c((1, 1)), c((1, 1)))),
            Geometry::Rect(Rect::new(c((0, 1)), c((2, 1)))),
            Geometry::Rect(Rect::new(c((1, 0)), c((1, 2)))),
            Geometry::Rect(Rect::new(c((2, 2)), c((2, 2)))),
            Geometry::Triangle(Triangle(c((0, 0)), c((1, 1)), c((2, 2)))),
            Geometry::Triangle(Triangle(c((0, 2)), c((0, 2)), c((0, 2)))),
            Geometry::Triangle(Triangle(c((0, 0)), c((2, 0)), c((2, 0)))),
            Geometry::Polygon(Polygon::new(LineString::new(vec![c((1, 0)), c((1, 0)), c((1, 0)), c((1, 0))]), vec![])),
            Geometry::Polygon(Polygon::new(LineString::new(vec![c((0, 0)), c((2, 1)), c((0, 0))]), vec![])),
            Geometry::LineString(LineString::new(vec![c((2, 0))])),
            Geometry::LineString(LineString::new(vec![c((0, 1)), c((0, 1)), c((0, 1))])),
            Geometry::LineString(LineString::new(vec![])),
            Geometry::Polygon(Polygon::new(LineString::new(vec![]), vec![])),
            Geometry::MultiPoint(MultiPoint(vec![])),
            Geometry::MultiLineString(MultiLineString(vec![])),
            Geometry::MultiPolygon(MultiPolygon(vec![])),
            Geometry::GeometryCollection(GeometryCollection(vec![])),
            Geometry::MultiLineString(MultiLineString(vec![LineString::new(vec![]), LineString::new(vec![c((0, 0)), c((2, 2))])])),
            Geometry::MultiPoint(MultiPoint(vec![Point(c((1, 2))), Point(c((1, 2)))])),
        ];
        // members listed twice (in a row, and with another member between): the mod-2 boundary rule makes the end points of a doubled line interior
        let (l1, l2) = (LineString::new(vec![c((0, 0)), c((2, 0))]), LineString::new(vec![c((2, 0)), c((2, 2)), c((0, 2))]));
        deg.push(Geometry::MultiLineString(MultiLineString(vec![l1.clone(), l1.clone()])));
        deg.push(Geometry::MultiLineString(MultiLineString(vec![l1.clone(), l1.clone(), l2.clone()])));
        deg.push(Geometry::MultiLineString(MultiLineString(vec![l2.clone(), l1.clone(), l1.clone()])));
        deg.push(Geometry::MultiLineString(MultiLineString(vec![l1.clone(), l2.clone(), l1.clone()])));
        deg.push(Geometry::MultiLineString(MultiLineString(vec![l1.clone(), l1.clone(), l1.clone()])));
        deg.push(Geometry::MultiPoint(MultiPoint(vec![Point(c((0, 0))), Point(c((0, 0))), Point(c((2, 1)))])));
        deg.push(Geometry::MultiPolygon(MultiPolygon(vec![Polygon::new(LineString::new(vec![c((0, 0)), c((2, 0)), c((0, 2)), c((0, 0))]), vec![]), Polygon::new(LineString::new(vec![c((0, 0)), c((2, 0)), c((0, 2)), c((0, 0))]), vec![])])));
        deg.push(Geometry::GeometryCollection(GeometryCollection(vec![Geometry::LineString(l1.clone()), Geometry::LineString(l1.clone())])));
        let nested = Geometry::GeometryCollection(GeometryCollection(vec![deg[1].clone(), Geometry::GeometryCollection(GeometryCollection(vec![])), deg[4].clone()]));
        deg.push(nested);
        for g in deg {
            shapes.push(Shape::new(e.clone(), g, "DEGEN"));
        }
    }
    let n = shapes.len();
    run.stage("pairs-reuse", n, |ia, acc| {
        let a = &shapes[ia];
        let pa_owned = PreparedGeometry::from(a.g.clone());
        let before = pa_owned.verif_state();
        let res = guard(|| {
            with_geom!(&a.g, x => {
                let pa = PreparedGeometry::from(x);
                let mut out: Vec<(usize, String, String, String)> = vec![];
                for (ib, b) in shapes.iter().enumerate() {
                    let plain_ab = im_string(&x.relate(&b.g));
                    let plain_ba = im_string(&b.g.relate(x));
                    let r1 = im_string(&pa.relate(&b.g));
                    let r2 = im_string(&b.g.relate(&pa));
                    let r3 = im_string(&pa_owned.relate(&b.g));
                    if r1 != plain_ab { out.push((ib, "prepared(&concrete).relate(plain)".into(), r1, plain_ab.clone())); }
                    if r2 != plain_ba { out.push((ib, "plain.relate(prepared(&concrete))".into(), r2, plain_ba)); }
                    if r3 != plain_ab { out.push((ib, "prepared(owned enum).relate(plain)".into(), r3, plain_ab)); }
                }
                out
            })
        });
        acc.evals += 5 * n as u64;
        acc.class(format!("reuse {}", a.ty()));
        match res {
            Ok(bad) => {
                for (ib, how, got, exp) in bad {
                    acc.viol(format!("{} {}x{} differs from plain", how, a.ty(), shapes[ib].ty()), ia, || {
                        json!({"a": a.wkt(), "b": shapes[ib].wkt(), "got": got, "expected": exp})
                    });
                }
            }
            Err(e) => acc.viol(format!("prepared reuse panic {}", a.ty()), ia, || json!({"a": a.wkt(), "panic": e})),
        }
        if pa_owned.verif_state() != before {
            acc.viol("prepared state changed by reuse across the families".into(), ia, || json!({"a": a.wkt()}));
        }
        acc.sample(ia, || json!({"prepared": a.wkt(), "partners": n}));
    });
    // prepared x prepared on a coarser grid
    let step = run.ctx.pick(5, 2);
    let sub: Vec<&Shape> = shapes.iter().step_by(step).collect();
    let ns = sub.len();
    run.stage("pairs-both-prepared", ns * ns, |idx, acc| {
        let (a, b) = (sub[idx / ns], sub[idx % ns]);
        let r = guard(|| {
            let (pa, pb) = (PreparedGeometry::from(&a.g), PreparedGeometry::from(&b.g));
            (im_string(&pa.relate(&pb)), im_string(&a.g.relate(&b.g)))
        });
        acc.evals += 1;
        match r {
            Ok((got, exp)) => {
                acc.class(format!("pp {}x{} {}", a.ty(), b.ty(), exp));
                if got != exp {
                    acc.viol(format!("prepared.relate(prepared) {}x{} differs from plain", a.ty(), b.ty()), idx, || {
                        json!({"a": a.wkt(), "b": b.wkt(), "got": got, "expected": exp})
                    });
                }
            }
            Err(e) => acc.viol(format!("prepared.relate(prepared) {}x{} panic", a.ty(), b.ty()), idx, || json!({"a": a.wkt(), "b": b.wkt(), "panic": e})),
        }
        // the same pair written differently (exact scales 2^-30 / 2^30, zeros as -0.0, f32): prepared and plain must still agree with each other
        if idx % 3 == 0 {
            let variants: Vec<(&str, Geometry<f64>, Geometry<f64>)> = vec![
                ("scaled by 2^-30", map_geom_f(&a.g, &|c| geo::Coord { x: c.x / 1073741824.0, y: c.y / 1073741824.0 }), map_geom_f(&b.g, &|c| geo::Coord { x: c.x / 1073741824.0, y: c.y / 1073741824.0 })),
                ("scaled by 2^30", map_geom_f(&a.g, &|c| geo::Coord { x: c.x * 1073741824.0, y: c.y * 1073741824.0 }), map_geom_f(&b.g, &|c| geo::Coord { x: c.x * 1073741824.0, y: c.y * 1073741824.0 })),
                ("a with zeros as -0.0", neg_zeros(&a.g, 1), b.g.clone()),
            ];
            for (what, va, vb) in variants {
                acc.evals += 1;
                let r = guard(|| {
                    let pa = PreparedGeometry::from(&va);
                    (im_string(&pa.relate(&vb)), im_string(&vb.relate(&pa)), im_string(&va.relate(&vb)), im_string(&vb.relate(&va)))
                });
                match r {
                    Ok((p1, p2, e1, e2)) if p1 == e1 && p2 == e2 => {}
                    other => acc.viol(format!("prepared relate differs from plain on the same pair {} ({}x{})", what, a.ty(), b.ty()), idx, || json!({"a": format!("{:?}", va), "b": format!("{:?}", vb), "prepared.relate(b) / b.relate(prepared) / plain / plain reversed": format!("{:?}", other)})),
                }
            }
            acc.evals += 1;
            let (fa, fb) = (to_f32(&a.g), to_f32(&b.g));
            let r = guard(|| {
                let pa = PreparedGeometry::from(&fa);
                (im_string(&pa.relate(&fb)), im_string(&fb.relate(&pa)), im_string(&fa.relate(&fb)), im_string(&fb.relate(&fa)))
            });
            match r {
                Ok((p1, p2, e1, e2)) if p1 == e1 && p2 == e2 => {}
                other => acc.viol(format!("prepared relate<f32> differs from plain ({}x{})", a.ty(), b.ty()), idx, || json!({"a": a.wkt(), "b": b.wkt(), "result": format!("{:?}", other)})),
            }
        }
    });
    // affine images of the families (oblique edges: the R-tree envelopes of the segments overlap far more than on axis-parallel input), prepared in
    // either or both positions, each prepared geometry reused against every partner of its row
    for f in imaps().iter().take(4) {
        let img: Vec<Shape> = sub.iter().map(|s| map_shape(s, f)).collect();
        let ni = img.len();
        run.stage(&format!("pairs-affine-image {}", f.name), ni, |ia, acc| {
            let a = &img[ia];
            let pa = PreparedGeometry::from(&a.g);
            let before = pa.verif_state();
            for b in img.iter() {
                acc.evals += 3;
                let r = guard(|| {
                    let pb = PreparedGeometry::from(&b.g);
                    (im_string(&a.g.relate(&b.g)), im_string(&pa.relate(&b.g)), im_string(&b.g.relate(&pa)), im_string(&b.g.relate(&a.g)), im_string(&pa.relate(&pb)))
                });
                match r {
                    Ok((exp, p1, p2, exp2, p3)) => {
                        if p1 != exp || p2 != exp2 || p3 != exp {
                            acc.viol(format!("prepared relate on affine images {}x{} differs from plain", a.ty(), b.ty()), ia, || json!({"a": a.wkt(), "b": b.wkt(), "plain": exp, "prepared.relate(b)": p1, "b.relate(prepared)": p2, "plain b.relate(a)": exp2, "prepared.relate(prepared)": p3, "map": f.name}));
                            break;
                        }
                    }
                    Err(e) => {
                        acc.viol(format!("prepared relate on affine images {}x{} panic", a.ty(), b.ty()), ia, || json!({"a": a.wkt(), "b": b.wkt(), "panic": e}));
                        break;
                    }
                }
            }
            acc.class(format!("affine-image row {}", a.ty()));
            if pa.verif_state() != before {
                acc.viol("prepared state changed by reuse (affine images)".into(), ia, || json!({"a": a.wkt()}));
            }
        });
    }
    run.extra.insert("model_samples".into(), json!(samples));
    run.traces = run.transitions + run.stages.iter().map(|s| s.done).sum::<u64>();
    run.finish()
}

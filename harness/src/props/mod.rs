use crate::engine::Run;
pub mod c01;
pub mod c02;
pub mod c03;
pub mod c04;
pub mod c05;
pub mod c06;
pub mod c07;
pub mod c08;
pub mod c09;
pub mod c10;
pub mod c11;
pub mod c12;
pub mod c13;
pub mod c14;
pub mod c15;
pub mod c16;
pub mod c17;
pub mod c18;
pub mod c19;
pub mod c20;

pub fn dispatch(prop: &str, run: Run) -> Option<i32> {
    Some(match prop {
        "C01" => c01::run(run),
        "C02" => c02::run(run),
        "C03" => c03::run(run),
        "C04" => c04::run(run),
        "C05" => c05::run(run),
        "C06" => c06::run(run),
        "C07" => c07::run(run),
        "C08" => c08::run(run),
        "C09" => c09::run(run),
        "C10" => c10::run(run),
        "C11" => c11::run(run),
        "C12" => c12::run(run),
        "C13" => c13::run(run),
        "C14" => c14::run(run),
        "C15" => c15::run(run),
        "C16" => c16::run(run),
        "C17" => c17::run(run),
        "C18" => c18::run(run),
        "C19" => c19::run(run),
        "C20" => c20::run(run),
        "C20-worker" => c20::worker(&std::env::args().nth(2).unwrap_or_default()),
        _ => return None,
    })
}

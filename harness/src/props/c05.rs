//! C05 Planar area and ring orientation are exact up to rounding.
use crate::build::*;
use crate::engine::*;
use crate::enumr::*;
use crate::exact::*;
use geo::orient::Direction;
use geo::winding_order::WindingOrder;
use geo::{Area, Coord, Geometry, GeometryCollection, LineString, MultiPolygon, Orient, Polygon, Rect, Triangle, Winding};
use serde_json::json;

pub fn poly_family(quick: bool) -> Vec<Poly> {
    let mut v: Vec<Poly> = vec![];
    for r in rings(3, 8) {
        v.push(Poly { shell: r, holes: vec![] });
    }
    for r in rings(4, if quick { 5 } else { 6 }).into_iter().step_by(if quick { 5 } else { 1 }) {
        v.push(Poly { shell: r, holes: vec![] });
    }
    // with holes: G4 window shells x triangular/quad holes (touching allowed), and two holes
    let g4 = grid(4);
    let shells: Vec<Vec<IP>> = vec![
        vec![(0, 0), (3, 0), (3, 3), (0, 3)],
        vec![(0, 0), (3, 0), (0, 3)],
        vec![(0, 0), (3, 1), (2, 3), (0, 2)],
    ];
    let holes = rings_over(&g4, 4);
    v.extend(polys_with_hole(&shells, &holes));
    let big: Vec<IP> = vec![(0, 0), (5, 0), (5, 3), (0, 3)];
    let h1 = rings_over(&grid_xy(3, 4), 3);
    for (i, a) in h1.iter().enumerate().step_by(if quick { 3 } else { 1 }) {
        for b in h1.iter().skip(i % 3).step_by(if quick { 3 } else { 1 }) {
            let b2: Vec<IP> = b.iter().map(|p| (p.0 + 3, p.1)).collect();
            let p = Poly { shell: big.clone(), holes: vec![a.clone(), b2] };
            if poly_valid(&p) {
                v.push(p);
            }
        }
    }
    v
}

fn tf(p: IP, off: (f64, f64), scale: f64) -> Coord<f64> {
    Coord { x: (p.0 as f64 + off.0) * scale, y: (p.1 as f64 + off.1) * scale }
}
fn ring_f(r: &[IP], rev: bool, rot: usize, off: (f64, f64), scale: f64) -> LineString<f64> {
    let mut v = rotate_ring(r, rot);
    if rev {
        v.reverse();
    }
    let mut c: Vec<Coord<f64>> = v.iter().map(|&p| tf(p, off, scale)).collect();
    c.push(c[0]);
    LineString::new(c)
}
fn ulp(x: f64) -> f64 {
    let x = x.abs().max(f64::MIN_POSITIVE);
    f64::from_bits(x.to_bits() + 1) - x
}

pub fn run(mut run: Run) -> i32 {
    let quick = run.ctx.quick();
    let polys = poly_family(quick);
    run.rule = "every lattice polygon (all G3 rings, G4 sample, polygons with 1-2 holes incl. touching) x every combination of ring windings x offsets {0,+-1e8 mixed} x scales {1,2^-20,2^-30,2^-200,2^60}: \
        signed/unsigned area vs exact rational shoelace; Rect/Triangle vs polygon form; collections sum; winding_order for every ring rotation and with repeated vertices vs sign of exact area; \
        orient(Default|Reversed); distinct = (hole-winding pattern, offset, scale, ring size)"
        .into();
    run.assumptions = vec!["tolerance 8 ulp(coordinate magnitude) x extent for areas (the shifted shoelace is exact on these inputs: measured deviation reported)".into()];
    let offs: [(f64, f64); 4] = [(0.0, 0.0), (1e8, 1e8), (-1e8, 3e7), (123456789.0, -987654321.0)];
    // exact power-of-two scales: area tolerances must be relative to the coordinate magnitude at every one of them
    let scales: [f64; 5] = [1.0, 1.0 / 1048576.0, 1.0 / 1073741824.0, 2f64.powi(-200), 2f64.powi(60)];
    let np = polys.len();
    run.extra.insert("polygons".into(), json!(np));
    run.stage("polygon-area", np * offs.len() * scales.len(), |idx, acc| {
        let p = &polys[idx / (offs.len() * scales.len())];
        let off = offs[(idx / scales.len()) % offs.len()];
        let scale = scales[idx % scales.len()];
        let nr = 1 + p.holes.len();
        let exact = poly_area(p); // unsigned
        let exact_f = exact.f() * scale * scale;
        let mag = (off.0.abs().max(off.1.abs()) + 6.0) * scale;
        let tol = 8.0 * ulp(mag) * 16.0 * scale + 1e-13 * exact_f;
        for mask in 0..(1u32 << nr) {
            let shell_rev = mask & 1 == 1;
            let ext = ring_f(&p.shell, shell_rev, (mask as usize) % p.shell.len(), off, scale);
            let ints: Vec<LineString<f64>> = p.holes.iter().enumerate().map(|(i, h)| ring_f(h, mask >> (i + 1) & 1 == 1, i, off, scale)).collect();
            let pg = Polygon::new(ext, ints);
            let shell_ccw = (area2(&p.shell) > 0) != shell_rev;
            let want = if shell_ccw { exact_f } else { -exact_f };
            let (sa, ua) = (pg.signed_area(), pg.unsigned_area());
            acc.evals += 2;
            acc.maxf("abs area deviation / tol", (sa - want).abs() / tol);
            acc.class(format!("rings{} mask{} off{:?} scale{}", nr, mask, off.0, scale));
            acc.sample(idx, || json!({"polygon": format!("{:?}", pg), "exact_signed_area": want, "got": sa}));
            if !((sa - want).abs() <= tol) {
                let what = if sa.signum() != want.signum() { "sign" } else { "value" };
                acc.viol(format!("Polygon::signed_area wrong {} (rings={} offset={} holes-ccw-mask)", what, nr, if off.0 == 0.0 { "0" } else { "large" }), idx, || {
                    json!({"polygon": format!("{:?}", pg), "exact": want, "got": sa, "tol": tol, "winding_mask": mask})
                });
            }
            if ua != sa.abs() {
                acc.viol("Polygon::unsigned_area != |signed_area|".into(), idx, || json!({"polygon": format!("{:?}", pg), "signed": sa, "unsigned": ua}));
            }
            // the f32 instantiation on the unshifted lattice (all values exact), winding order also for i64 (Area needs a float type)
            if off == (0.0, 0.0) && scale != 1.0 && scale > 1e-10 && scale < 1e10 {
                // f32 at the small scales: lattice coordinates times a power of two are exact in f32 and so is the area
                let g32 = map_geom_g(&Geometry::Polygon(pg.clone()), &|c| Coord { x: c.x as f32, y: c.y as f32 });
                acc.evals += 2;
                let (a32, u32_) = (g32.signed_area() as f64, g32.unsigned_area() as f64);
                if a32 != want || u32_ != want.abs() {
                    acc.viol("Polygon<f32> area differs from the exact area on the scaled lattice".into(), idx, || json!({"polygon": format!("{:?}", pg), "exact": want, "signed_f32": a32, "unsigned_f32": u32_, "scale": scale}));
                }
            }
            if off == (0.0, 0.0) && scale == 1.0 {
                let g32 = map_geom_g(&Geometry::Polygon(pg.clone()), &|c| Coord { x: c.x as f32, y: c.y as f32 });
                let gi = map_geom_g(&Geometry::Polygon(pg.clone()), &|c| Coord { x: c.x as i64, y: c.y as i64 });
                acc.evals += 2;
                let (a32, u32_) = (g32.signed_area() as f64, g32.unsigned_area() as f64);
                if a32 != want || u32_ != want.abs() {
                    acc.viol("Polygon<f32> area differs from the exact area on the lattice".into(), idx, || json!({"polygon": format!("{:?}", pg), "exact": want, "signed_f32": a32, "unsigned_f32": u32_}));
                }
                if let (Geometry::Polygon(p32), Geometry::Polygon(pi)) = (&g32, &gi) {
                    use geo::winding_order::WindingOrder as W;
                    let ww = |w: Option<W>| match w { Some(W::CounterClockwise) => 1, Some(W::Clockwise) => -1, None => 0 };
                    let ex = if shell_ccw { 1 } else { -1 };
                    if ww(p32.exterior().winding_order()) != ex || ww(pi.exterior().winding_order()) != ex {
                        acc.viol("winding_order<f32/i64> of the exterior differs from the exact orientation".into(), idx, || json!({"polygon": format!("{:?}", pg)}));
                    }
                }
            }
            // collections
            if mask == 0 {
                let mp = MultiPolygon(vec![pg.clone(), pg.clone()]);
                let gc = GeometryCollection(vec![Geometry::Polygon(pg.clone()), Geometry::MultiPolygon(mp.clone()), Geometry::Point(geo::Point(tf((0, 0), off, scale))), Geometry::LineString(pg.exterior().clone())]);
                acc.evals += 3;
                if (mp.signed_area() - 2.0 * sa).abs() > 2.0 * tol || (gc.signed_area() - 3.0 * sa).abs() > 3.0 * tol || Geometry::Polygon(pg.clone()).signed_area() != sa {
                    acc.viol("collection area is not the sum of member areas".into(), idx, || {
                        json!({"polygon": format!("{:?}", pg), "poly": sa, "multi(2x)": mp.signed_area(), "gc(3x)": gc.signed_area()})
                    });
                }
                if mp.unsigned_area() != mp.signed_area().abs() && (mp.unsigned_area() - 2.0 * ua).abs() > 2.0 * tol {
                    acc.viol("MultiPolygon::unsigned_area".into(), idx, || json!({"polygon": format!("{:?}", pg)}));
                }
                // members of MIXED winding: the polygon, the same polygon with every ring reversed, a clockwise Triangle, a Rect. unsigned areas add up,
                // signed areas add up with their signs
                let mut rev = pg.clone();
                rev.exterior_mut(|r| r.0.reverse());
                rev.interiors_mut(|rs| rs.iter_mut().for_each(|r| r.0.reverse()));
                let (t0, t1, t2) = (tf((0, 0), off, scale), tf((0, 2), off, scale), tf((2, 0), off, scale));
                let tri_cw = Triangle(t0, t1, t2); // (0,0),(0,2),(2,0) is clockwise; tuple constructor keeps the order
                let rect = Rect::new(tf((0, 0), off, scale), tf((3, 1), off, scale));
                let s2 = scale * scale;
                for (name, members, want_signed, want_unsigned) in [
                    ("[poly, reversed poly]", vec![Geometry::Polygon(pg.clone()), Geometry::Polygon(rev.clone())], 0.0, 2.0 * ua),
                    ("[reversed poly, Rect]", vec![Geometry::Polygon(rev.clone()), Geometry::Rect(rect)], -sa + 3.0 * s2, ua + 3.0 * s2),
                    ("[cw Triangle, poly]", vec![Geometry::Triangle(tri_cw), Geometry::Polygon(pg.clone())], sa - 2.0 * s2, ua + 2.0 * s2),
                    ("[poly, [cw Triangle, reversed poly]]", vec![Geometry::Polygon(pg.clone()), Geometry::GeometryCollection(GeometryCollection(vec![Geometry::Triangle(tri_cw), Geometry::Polygon(rev.clone())]))], -2.0 * s2, 2.0 * ua + 2.0 * s2),
                ] {
                    acc.evals += 2;
                    let gcm = GeometryCollection(members);
                    let (gs, gu) = (gcm.signed_area(), gcm.unsigned_area());
                    let t4 = 4.0 * tol + 1e-9 * s2;
                    if (gs - want_signed).abs() > t4 || (gu - want_unsigned).abs() > t4 {
                        acc.viol(format!("collection of members with mixed winding {}: areas are not the sums of the members' areas", name), idx, || json!({"collection": format!("{:?}", gcm), "signed": gs, "expected_signed": want_signed, "unsigned": gu, "expected_unsigned": want_unsigned}));
                    }
                }
                let mpm = MultiPolygon(vec![pg.clone(), rev.clone()]);
                if (mpm.unsigned_area() - 2.0 * ua).abs() > 2.0 * tol || mpm.signed_area().abs() > 2.0 * tol {
                    acc.viol("MultiPolygon of members with mixed winding: areas are not the sums of the members' areas".into(), idx, || json!({"multipolygon": format!("{:?}", mpm), "signed": mpm.signed_area(), "unsigned": mpm.unsigned_area()}));
                }
            }
            // orient
            for (dir, ext_ccw) in [(Direction::Default, true), (Direction::Reversed, false)] {
                let o = pg.orient(dir);
                acc.evals += 1;
                let ring_ok = |orig: &LineString<f64>, got: &LineString<f64>, want_ccw: bool| -> bool {
                    let mut rev = orig.clone();
                    rev.0.reverse();
                    let same = got == orig || *got == rev;
                    let a: f64 = got.0.windows(2).map(|w| (w[0].x - got.0[0].x) * (w[1].y - got.0[0].y) - (w[1].x - got.0[0].x) * (w[0].y - got.0[0].y)).sum();
                    same && (a > 0.0) == want_ccw
                };
                let ok = ring_ok(pg.exterior(), o.exterior(), ext_ccw)
                    && o.interiors().len() == pg.interiors().len()
                    && pg.interiors().iter().zip(o.interiors()).all(|(a, b)| ring_ok(a, b, !ext_ccw));
                if !ok {
                    acc.viol(format!("orient({:?}) wrong winding or changed coordinates", dir), idx, || json!({"polygon": format!("{:?}", pg), "oriented": format!("{:?}", o)}));
                }
                // the MultiPolygon impl: two members (the polygon and a translated copy with every ring reversed), each oriented like the Polygon impl does
                let other = {
                    let sh = |l: &LineString<f64>| LineString::new(l.0.iter().rev().map(|c| Coord { x: c.x + 64.0 * scale, y: c.y }).collect());
                    Polygon::new(sh(pg.exterior()), pg.interiors().iter().map(sh).collect())
                };
                let mp = MultiPolygon(vec![pg.clone(), other.clone()]);
                let om = mp.orient(dir);
                acc.evals += 1;
                let ok_m = om.0.len() == 2
                    && [(&pg, &om.0[0]), (&other, &om.0[1])].iter().all(|(src, got)| {
                        ring_ok(src.exterior(), got.exterior(), ext_ccw) && got.interiors().len() == src.interiors().len() && src.interiors().iter().zip(got.interiors()).all(|(a, b)| ring_ok(a, b, !ext_ccw))
                    });
                if !ok_m {
                    acc.viol(format!("MultiPolygon::orient({:?}) wrong winding or changed coordinates", dir), idx, || json!({"multipolygon": format!("{:?}", mp), "oriented": format!("{:?}", om)}));
                }
            }
        }
    });
    // winding_order: every rotation, reversal, repeated vertices
    let rs: Vec<Vec<IP>> = polys.iter().filter(|p| p.holes.is_empty()).map(|p| p.shell.clone()).collect();
    let nrg = rs.len();
    run.stage("winding-order", nrg * offs.len(), |idx, acc| {
        let r = &rs[idx / offs.len()];
        let off = offs[idx % offs.len()];
        let n = r.len();
        for rot in 0..n {
            for rev in [false, true] {
                // dup: a repeated vertex at position d; usize::MAX = the closing vertex written twice more at the end
                for dup in [None, Some(0usize), Some(n / 2), Some(n - 1), Some(usize::MAX)] {
                    let mut v = rotate_ring(r, rot);
                    if rev {
                        v.reverse();
                    }
                    let a2 = area2(&v);
                    let mut c: Vec<Coord<f64>> = v.iter().map(|&p| tf(p, off, 1.0)).collect();
                    if let Some(d) = dup {
                        if d != usize::MAX {
                            let x = c[d];
                            c.insert(d, x);
                        }
                    }
                    c.push(c[0]);
                    if dup == Some(usize::MAX) {
                        c.push(c[0]);
                        c.push(c[0]);
                    }
                    let l = LineString::new(c);
                    let want = if a2 > 0 { WindingOrder::CounterClockwise } else { WindingOrder::Clockwise };
                    let got = l.winding_order();
                    acc.evals += 1;
                    acc.class(format!("winding n{} rot-class{} rev{} dup{}", n, (rot * 3) / n, rev, dup.is_some()));
                    acc.sample(idx, || json!({"ring": format!("{:?}", l), "expected": format!("{:?}", want)}));
                    if got != Some(want) {
                        acc.viol(format!("winding_order expected {:?} got {:?}{}", want, got, if dup.is_some() { " (repeated vertex)" } else { "" }), idx, || {
                            json!({"ring": format!("{:?}", l), "exact_twice_area": a2, "got": format!("{:?}", got)})
                        });
                    }
                    if l.is_ccw() != (a2 > 0) || l.is_cw() != (a2 < 0) {
                        acc.viol("is_ccw/is_cw inconsistent with exact area".into(), idx, || json!({"ring": format!("{:?}", l)}));
                    }
                    // integer instantiations far from the origin (the coordinate differences are small, so every product fits the type)
                    if dup.is_none() && off == (0.0, 0.0) && rot % 2 == 0 {
                        use geo::winding_order::WindingOrder as W;
                        let ww = |w: Result<Option<W>, String>| match w { Ok(Some(W::CounterClockwise)) => "ccw".to_string(), Ok(Some(W::Clockwise)) => "cw".to_string(), Ok(None) => "none".to_string(), Err(e) => format!("panic: {}", e) };
                        let exp = if a2 > 0 { "ccw" } else { "cw" };
                        let mut vc = v.clone();
                        vc.push(v[0]);
                        let r16 = LineString::<i16>::new(vc.iter().map(|p| Coord { x: p.0 as i16 + 20000, y: p.1 as i16 - 20000 }).collect());
                        let r32 = LineString::<i32>::new(vc.iter().map(|p| Coord { x: p.0 as i32 + 100_000_000, y: p.1 as i32 - 100_000_000 }).collect());
                        let r64 = LineString::<i64>::new(vc.iter().map(|p| Coord { x: p.0 + 3_000_000_000, y: p.1 - 3_000_000_000 }).collect());
                        // beyond 2^53: the coordinates are not representable in f64 any more, the differences still are
                        let r64b = LineString::<i64>::new(vc.iter().map(|p| Coord { x: p.0 + (1i64 << 60) + 1, y: p.1 - (1i64 << 61) - 3 }).collect());
                        let r128 = LineString::<i128>::new(vc.iter().map(|p| Coord { x: p.0 as i128 + (1i128 << 100) + 1, y: p.1 as i128 - (1i128 << 90) }).collect());
                        acc.evals += 5;
                        for (name, got) in [("i16 at 20000", ww(guard(|| r16.winding_order()))), ("i32 at 1e8", ww(guard(|| r32.winding_order()))), ("i64 at 3e9", ww(guard(|| r64.winding_order()))), ("i64 at 2^60", ww(guard(|| r64b.winding_order()))), ("i128 at 2^100", ww(guard(|| r128.winding_order())))] {
                            if got != exp {
                                acc.viol(format!("winding_order of an integer ring far from the origin ({}) expected {} got {}", name, exp, got.split(':').next().unwrap()), idx, || json!({"ring": format!("{:?}", l), "type_and_offset": name, "got": got}));
                            }
                        }
                    }
                    // the same ring with zero coordinates written as -0.0 (all of them / every other one): -0.0 == 0.0, so nothing may change
                    if dup.is_none() && off == (0.0, 0.0) {
                        for pattern in 0..3usize {
                            let mut k = 0usize;
                            let mut neg = |v: f64| -> f64 {
                                if v == 0.0 {
                                    k += 1;
                                    if pattern == 0 || k % 2 == pattern - 1 { -0.0 } else { 0.0 }
                                } else {
                                    v
                                }
                            };
                            let lz = LineString::new(l.0.iter().map(|c| Coord { x: neg(c.x), y: neg(c.y) }).collect::<Vec<_>>());
                            acc.evals += 1;
                            if lz.winding_order() != Some(want) {
                                acc.viol(format!("winding_order changes when zero coordinates are written as -0.0 (expected {:?})", want), idx, || json!({"ring": format!("{:?}", lz), "got": format!("{:?}", lz.winding_order())}));
                                break;
                            }
                        }
                    }
                }
            }
        }
    });
    // Rect and Triangle equal their polygon form
    let g = grid(4);
    let ng = g.len();
    run.stage("rect-triangle", ng * ng * ng * offs.len(), |idx, acc| {
        let off = offs[idx % offs.len()];
        let i = idx / offs.len();
        let (a, b, c3) = (g[i / (ng * ng)], g[(i / ng) % ng], g[i % ng]);
        let t = Triangle(tf(a, off, 1.0), tf(b, off, 1.0), tf(c3, off, 1.0));
        let want = orient_i(a, b, c3) as f64 * (area2(&[a, b, c3]).abs() as f64) / 2.0;
        acc.evals += 2;
        let ts = t.signed_area();
        let tp = t.to_polygon().signed_area();
        acc.class(format!("tri sign{} off{}", orient_i(a, b, c3), off.0));
        if (ts - want).abs() > 1e-6 || (tp - want).abs() > 1e-6 || t.unsigned_area() != ts.abs() {
            acc.viol("Triangle area differs from exact / polygon form".into(), idx, || json!({"triangle": format!("{:?}", t), "exact": want, "triangle_area": ts, "polygon_area": tp}));
        }
        if i % ng == 0 {
            let r = Rect::new(tf(a, off, 1.0), tf(b, off, 1.0));
            let want = ((a.0 - b.0) * (a.1 - b.1)).abs() as f64;
            let (rs_, rp) = (r.signed_area(), r.to_polygon().signed_area());
            acc.evals += 2;
            if (rs_ - want).abs() > 1e-6 || (rp - want).abs() > 1e-6 || r.unsigned_area() != rs_.abs() {
                acc.viol("Rect area differs from exact / polygon form".into(), idx, || json!({"rect": format!("{:?}", r), "exact": want, "rect_area": rs_, "polygon_area": rp}));
            }
        }
    });
    // long rings (up to thousands of coordinates): a 40 x 10 rectangle with a centred 10 x 4 hole, every side subdivided into k pieces: the area, the windings and
    // orient do not depend on k
    {
        let ks: Vec<usize> = if quick { vec![1, 15, 16, 17, 63, 64, 65, 100, 1000] } else { vec![1, 2, 3, 15, 16, 17, 31, 32, 33, 63, 64, 65, 127, 128, 129, 255, 256, 257, 1000, 4097, 20000] };
        run.stage("long-rings", ks.len() * 2, |idx, acc| {
            let (k, rev) = (ks[idx / 2], idx % 2 == 1);
            let densify = |corners: &[(f64, f64)]| -> LineString<f64> {
                let mut out = vec![];
                for w in corners.windows(2) {
                    for i in 0..k {
                        let t = i as f64 / k as f64;
                        out.push(Coord { x: w[0].0 + (w[1].0 - w[0].0) * t, y: w[0].1 + (w[1].1 - w[0].1) * t });
                    }
                }
                out.push(Coord { x: corners[0].0, y: corners[0].1 });
                if rev {
                    out.reverse();
                }
                LineString::new(out)
            };
            let pg = Polygon::new(densify(&[(0.0, 0.0), (40.0, 0.0), (40.0, 10.0), (0.0, 10.0), (0.0, 0.0)]), vec![densify(&[(15.0, 3.0), (15.0, 7.0), (25.0, 7.0), (25.0, 3.0), (15.0, 3.0)])]);
            let want = if rev { -360.0 } else { 360.0 };
            acc.evals += 3;
            acc.class(format!("long ring reversed{}", rev));
            use geo::winding_order::WindingOrder as W;
            let r = guard(|| (pg.signed_area(), pg.unsigned_area(), pg.exterior().winding_order(), pg.interiors()[0].winding_order(), pg.orient(Direction::Default).signed_area()));
            match r {
                Ok((sa, ua, we, wi, oa)) => {
                    let ok = (sa - want).abs() <= 1e-9 && (ua - 360.0).abs() <= 1e-9 && we == Some(if rev { W::Clockwise } else { W::CounterClockwise }) && wi == Some(if rev { W::CounterClockwise } else { W::Clockwise }) && (oa - 360.0).abs() <= 1e-9;
                    if !ok {
                        acc.viol("area / winding / orient of a finely subdivided rectangle with a hole is wrong".into(), idx, || json!({"pieces_per_side": k, "reversed": rev, "signed": sa, "unsigned": ua, "exterior_winding": format!("{:?}", we), "hole_winding": format!("{:?}", wi), "area_after_orient": oa}));
                    }
                }
                Err(e) => acc.viol("area of a long ring panic".into(), idx, || json!({"pieces_per_side": k, "panic": e})),
            }
        });
    }
    run.finish()
}

//! C12 Closest and interior points lie on the geometry.
use crate::build::*;
use crate::engine::*;
use crate::enumr::*;
use crate::exact::*;
use geo::{Closest, ClosestPoint, Coord, Geometry, GeometryCollection, InteriorPoint, LineString, Point, Polygon};
use serde_json::json;

fn d2f(px: f64, py: f64, a: IP, b: IP) -> f64 {
    let (ax, ay, bx, by) = (a.0 as f64, a.1 as f64, b.0 as f64, b.1 as f64);
    let (dx, dy) = (bx - ax, by - ay);
    let dd = dx * dx + dy * dy;
    let t = if dd == 0.0 { 0.0 } else { (((px - ax) * dx + (py - ay) * dy) / dd).clamp(0.0, 1.0) };
    (px - (ax + t * dx)).powi(2) + (py - (ay + t * dy)).powi(2)
}
fn ring_in_f(r: &[IP], x: f64, y: f64) -> bool {
    let n = r.len();
    let mut c = false;
    for i in 0..n {
        let (a, b) = (r[i], r[(i + 1) % n]);
        let (ay, by) = (a.1 as f64, b.1 as f64);
        if (ay > y) != (by > y) {
            let t = (y - ay) / (by - ay);
            if x < a.0 as f64 + t * (b.0 - a.0) as f64 {
                c = !c;
            }
        }
    }
    c
}
/// location of an f64 point with a tolerance: (location, distance to the nearest location change)
/// points within 1e-9 of the boundary set are Boundary.
fn locate_f(g: &AG, x: f64, y: f64) -> usize {
    const T2: f64 = 1e-18;
    match g {
        AG::Pts(ps) => {
            if ps.iter().any(|&p| d2f(x, y, p, p) <= T2) {
                I
            } else {
                E
            }
        }
        AG::Lines(ls) => {
            let mut bc = 0;
            let mut on = false;
            for l in ls {
                let closed = l.first() == l.last() && l.len() > 1;
                if !closed {
                    if d2f(x, y, l[0], l[0]) <= T2 {
                        bc += 1;
                    }
                    if d2f(x, y, l[l.len() - 1], l[l.len() - 1]) <= T2 {
                        bc += 1;
                    }
                }
                if l.windows(2).any(|w| d2f(x, y, w[0], w[1]) <= T2) {
                    on = true;
                }
            }
            if bc % 2 == 1 {
                B
            } else if on {
                I
            } else {
                E
            }
        }
        AG::Polys(ps) => {
            let mut inside = false;
            for p in ps {
                for r in std::iter::once(&p.shell).chain(p.holes.iter()) {
                    let n = r.len();
                    if (0..n).any(|i| d2f(x, y, r[i], r[(i + 1) % n]) <= T2) {
                        return B;
                    }
                }
                if ring_in_f(&p.shell, x, y) && !p.holes.iter().any(|h| ring_in_f(h, x, y)) {
                    inside = true;
                }
            }
            if inside {
                I
            } else {
                E
            }
        }
    }
}

/// a geometry as a list of single-dimension parts (mixed collections have several)
struct Subject {
    parts: Vec<AG>,
    g: Geometry<f64>,
    fam: &'static str,
}
impl Subject {
    fn locate_exact(&self, q: &HP) -> usize {
        // union semantics for mixed collections: non-exterior if any part is; interior if any part interior
        let mut best = E;
        for p in &self.parts {
            match locate(p, q) {
                I => return I,
                B => best = B,
                _ => {}
            }
        }
        best
    }
    fn locate_tol(&self, x: f64, y: f64) -> usize {
        let mut best = E;
        for p in &self.parts {
            match locate_f(p, x, y) {
                I => return I,
                B => best = B,
                _ => {}
            }
        }
        best
    }
    fn d2(&self, q: &HP) -> Option<Rat> {
        self.parts.iter().filter_map(|p| d2_hp_geom(q, p)).min()
    }
    fn max_dim(&self) -> i32 {
        self.parts.iter().filter(|p| !p.is_empty()).map(|p| p.dim()).max().unwrap_or(-1)
    }
}

fn subjects(cfg: &FamCfg, quick: bool) -> Vec<Subject> {
    let mut v: Vec<Subject> = families(cfg).into_iter().map(|s| Subject { parts: vec![s.ag.clone()], g: s.g.clone(), fam: s.fam }).collect();
    // 2-coordinate LineStrings (the LN family uses the Line type)
    let g3 = grid(3);
    for (i, &a) in g3.iter().enumerate() {
        for &b in g3.iter().skip(i + 1).step_by(2) {
            v.push(Subject { parts: vec![AG::Lines(vec![vec![a, b]])], g: Geometry::LineString(ls(&[a, b])), fam: "LS2" });
        }
    }
    // a valid NESTED multipolygon: a frame and an island inside its hole (members of a MultiPolygon need not be side by side), both member orders,
    // also inside a collection
    {
        let frame = Poly { shell: vec![(-1, -1), (4, -1), (4, 4), (-1, 4)], holes: vec![vec![(0, 0), (3, 0), (3, 3), (0, 3)]] };
        for island in [vec![(1, 1), (2, 1), (2, 2), (1, 2)], vec![(1, 1), (2, 1), (1, 2)], vec![(1, 2), (2, 1), (2, 2)]] {
            let isl = Poly { shell: island, holes: vec![] };
            for order in 0..2 {
                let ps = if order == 0 { vec![frame.clone(), isl.clone()] } else { vec![isl.clone(), frame.clone()] };
                let mp = Geometry::MultiPolygon(geo::MultiPolygon(ps.iter().map(poly).collect()));
                v.push(Subject { parts: vec![AG::Polys(ps.clone())], g: mp.clone(), fam: "NESTED" });
                v.push(Subject { parts: vec![AG::Polys(ps.clone())], g: Geometry::GeometryCollection(GeometryCollection(vec![mp])), fam: "NESTED" });
            }
        }
    }
    // mixed collections
    let pt = AG::Pts(vec![(0, 2)]);
    let ln = AG::Lines(vec![vec![(2, 0), (2, 2)]]);
    let pg = AG::Polys(vec![Poly { shell: vec![(0, 0), (1, 0), (0, 1)], holes: vec![] }]);
    let pg2 = AG::Polys(vec![Poly { shell: vec![(0, 0), (3, 0), (3, 3), (0, 3)], holes: vec![vec![(1, 1), (2, 1), (1, 2)]] }]);
    for parts in [vec![pt.clone(), ln.clone()], vec![pt.clone(), pg.clone()], vec![ln.clone(), pg.clone()], vec![pt.clone(), ln.clone(), pg.clone()], vec![pg2.clone(), pt.clone()], vec![ln.clone(), pt.clone()]] {
        let g = Geometry::GeometryCollection(GeometryCollection(parts.iter().map(natural).collect()));
        v.push(Subject { parts, g, fam: "GCmixed" });
        let _ = quick;
    }
    v
}

fn check_closest(acc: &mut Acc, idx: usize, s: &Subject, hp: HP, p: Point<f64>) {
        let loc = s.locate_exact(&hp);
        // twins of every fourth case: the exact scales 2^-30 / 2^30 (the answer scales with the input), zero coordinates written as -0.0, and f32
        if idx % 4 == 0 {
            let want = s.d2(&hp).map(|d| d.f());
            for sc in [1.0 / 1073741824.0, 1073741824.0] {
                let gs = map_geom_f(&s.g, &|c| Coord { x: c.x * sc, y: c.y * sc });
                let ps = Point::new(p.x() * sc, p.y() * sc);
                acc.evals += 1;
                let got = guard(|| gs.closest_point(&ps));
                let ok = match (&got, want) {
                    (Ok(Closest::Intersection(r)), _) => loc != E && (r.x() - ps.x()).abs() <= 1e-12 * sc * (1.0 + ps.x().abs() / sc) && (r.y() - ps.y()).abs() <= 1e-12 * sc * (1.0 + ps.y().abs() / sc), // the query point up to rounding
                    (Ok(Closest::SinglePoint(r)), Some(w)) => {
                        let d2 = ((r.x() - ps.x()) / sc).powi(2) + ((r.y() - ps.y()) / sc).powi(2);
                        loc == E && (d2 - w).abs() <= 1e-9 * w && s.locate_tol(r.x() / sc, r.y() / sc) != E
                    }
                    _ => false,
                };
                if !ok {
                    acc.viol(format!("closest_point does not scale with its input (scale 2^{}) {}", if sc < 1.0 { -30 } else { 30 }, tname(&s.g)), idx, || json!({"geometry": format!("{:?}", s.g), "query": [p.x(), p.y()], "scale": sc, "got": format!("{:?}", got), "exact_dist2_unscaled": want}));
                }
            }
            acc.evals += 2;
            let plain = guard(|| s.g.closest_point(&p));
            let nz = guard(|| neg_zeros(&s.g, 1).closest_point(&Point::new(if p.x() == 0.0 { -0.0 } else { p.x() }, if p.y() == 0.0 { -0.0 } else { p.y() })));
            if plain != nz {
                acc.viol(format!("closest_point changes when zero coordinates are written as -0.0 {}", tname(&s.g)), idx, || json!({"geometry": format!("{:?}", s.g), "query": [p.x(), p.y()], "plain": format!("{:?}", plain), "with -0.0": format!("{:?}", nz)}));
            }
            let g32 = map_geom_g(&s.g, &|c| Coord { x: c.x as f32, y: c.y as f32 });
            let p32 = geo::Point::<f32>::new(p.x() as f32, p.y() as f32);
            let got32 = guard(|| g32.closest_point(&p32));
            let ok32 = match (&got32, want) {
                (Ok(Closest::Intersection(r)), _) => loc != E && (r.x() - p32.x()).abs() <= 1e-5 * (1.0 + p32.x().abs()) && (r.y() - p32.y()).abs() <= 1e-5 * (1.0 + p32.y().abs()), // the query point up to f32 rounding
                (Ok(Closest::SinglePoint(r)), Some(w)) => {
                    let d2 = (r.x() as f64 - p.x()).powi(2) + (r.y() as f64 - p.y()).powi(2);
                    loc == E && (d2 - w).abs() <= 1e-4 * (w + 0.01)
                }
                _ => false,
            };
            // (only on the unmapped lattice: f32 carries ~7 digits, so images with coordinates in the hundreds lose the small distances)
            if !ok32 && s.fam != "image" && p.x().abs() <= 8.0 && p.y().abs() <= 8.0 && { use geo::CoordsIter; s.g.coords_iter().all(|c| c.x.abs() <= 16.0 && c.y.abs() <= 16.0) } {
                acc.viol(format!("closest_point<f32> wrong {}", tname(&s.g)), idx, || json!({"geometry": format!("{:?}", s.g), "query": [p.x(), p.y()], "got": format!("{:?}", got32), "exact_dist2": want}));
            }
        }
        let locn = ["interior", "boundary", "exterior"][loc];
        acc.evals += 1;
        acc.class(format!("closest {} {}", tname(&s.g), ["interior", "boundary", "exterior"][loc]));
        acc.sample(idx, || json!({"geometry": format!("{:?}", s.g), "query": [p.x(), p.y()], "exact_location": locn}));
        let got = guard(|| s.g.closest_point(&p));
        let w = |g: String| json!({"geometry": format!("{:?}", s.g), "query": [p.x(), p.y()], "exact_location": locn, "exact_dist2": s.d2(&hp).map(|d| d.f()), "got": g});
        match got {
            Err(e) => acc.viol(format!("closest_point panic {}", tname(&s.g)), idx, || w(e)),
            Ok(Closest::Indeterminate) => acc.viol(format!("closest_point Indeterminate for a non-empty {}", tname(&s.g)), idx, || w("Indeterminate".into())),
            Ok(Closest::Intersection(r)) => {
                if loc == E || (r.x() - p.x()).abs() > 1e-12 || (r.y() - p.y()).abs() > 1e-12 {
                    acc.viol(format!("closest_point Intersection although the query is exterior (or not the query point) {}", tname(&s.g)), idx, || w(format!("Intersection({:?})", r)));
                }
            }
            Ok(Closest::SinglePoint(r)) => {
                if loc != E {
                    acc.viol(format!("closest_point SinglePoint although the query intersects the {} ({})", tname(&s.g), ["interior", "boundary", "exterior"][loc]), idx, || w(format!("SinglePoint({:?})", r)));
                } else {
                    let want = s.d2(&hp).unwrap().f();
                    let d2 = (r.x() - p.x()).powi(2) + (r.y() - p.y()).powi(2);
                    acc.maxf("closest distance^2 relative error", (d2 - want).abs() / want);
                    if s.locate_tol(r.x(), r.y()) == E {
                        acc.viol(format!("closest_point result does not lie on the {}", tname(&s.g)), idx, || w(format!("SinglePoint({:?})", r)));
                    } else if (d2 - want).abs() > 1e-9 * want {
                        acc.viol(format!("closest_point result is not at the minimum distance {}", tname(&s.g)), idx, || w(format!("SinglePoint({:?})", r)));
                    }
                }
            }
        }
}

pub fn run(mut run: Run) -> i32 {
    let quick = run.ctx.quick();
    run.rule = "closest_point: every shape of the lattice families (all types, polygons with holes, mixed collections) x every query point of the half-step lattice extended beyond the box: Intersection(p) iff p is not exterior (exact), \
        otherwise a point on the geometry at the exact minimum distance; interior_point: every shape, the TJ(n) family (lattice triangle shell x triangular hole with a vertex in the interior of a shell edge, n=7 quick / 9 thorough), concave and sliver polygons: \
        Some unless empty, not exterior, interior when the geometry has interior of its own dimension, no panic; distinct = (type, location class / family)"
        .into();
    run.assumptions = vec!["returned points are judged with a 1e-9 tolerance (they are not lattice points); query points and inputs are exact".into()];
    let mut cfg = super::c01::cfg(&run.ctx);
    if quick {
        cfg.mls_stride = 60;
        cfg.mls3_stride = 9;
        cfg.mpg_stride = 20;
    }
    let subs = subjects(&cfg, quick);
    let n = subs.len();
    let span: i64 = 11; // k/2 for k in -2..=8
    let nq = (span * span) as usize;
    run.stage("closest-point", n * nq, |idx, acc| {
        let s = &subs[idx / nq];
        let q = idx % nq;
        let (kx, ky) = (q as i64 / span - 2, q as i64 % span - 2);
        let hp = HP::new(kx as i128, ky as i128, 2);
        let p = Point::new(kx as f64 / 2.0, ky as f64 / 2.0);
        check_closest(acc, idx, s, hp, p);
    });
    // images under (moderate) integer affine maps, queried at the images of the half-step lattice points: oblique edges, projection parameters that
    // are not representable, closest features that are no longer axis-parallel
    {
        let istep = 1;
        for f in imaps().into_iter().take(3) {
            let img: Vec<Subject> = subs.iter().step_by(istep).map(|s| Subject { parts: s.parts.iter().map(|a| map_ag(a, &f)).collect(), g: map_geom(&s.g, &f), fam: s.fam }).collect();
            let ni = img.len();
            run.stage(&format!("closest-point affine-image {}", f.name), ni * nq, |idx, acc| {
                let s = &img[idx / nq];
                let q = idx % nq;
                let (kx, ky) = (q as i64 / span - 2, q as i64 % span - 2);
                let (x2, y2) = (f.m[0] * kx + f.m[1] * ky + 2 * f.t.0, f.m[2] * kx + f.m[3] * ky + 2 * f.t.1);
                check_closest(acc, idx, s, HP::new(x2 as i128, y2 as i128, 2), Point::new(x2 as f64 / 2.0, y2 as f64 / 2.0));
            });
            run.stage(&format!("interior-point affine-image {}", f.name), ni, |idx, acc| {
                check_interior(acc, idx, &img[idx]);
            });
        }
    }
    // point-only geometries at the ends of the floating-point range (f64 at 2^+-520, f32 at 2^+-70): squared distances overflow or underflow there, the
    // distances themselves do not; the nearest member must still be returned. Every ordered triple of distinct lattice points as members x every query point.
    {
        use geo::MultiPoint;
        let g3p = grid(3);
        let npt = g3p.len();
        run.stage("closest-point-extreme-magnitudes", npt * npt * npt * npt, |idx, acc| {
            let (a, b, c3, q) = (g3p[idx / (npt * npt * npt)], g3p[(idx / (npt * npt)) % npt], g3p[(idx / npt) % npt], g3p[idx % npt]);
            if a == b || a == c3 || b == c3 {
                return;
            }
            let members = [a, b, c3];
            let d2 = |p: IP| (p.0 - q.0).pow(2) + (p.1 - q.1).pow(2);
            let best = members.iter().map(|&p| d2(p)).min().unwrap();
            acc.class(format!("extreme best{} ties{}", best.min(3), members.iter().filter(|&&p| d2(p) == best).count()));
            for (name, sc) in [("2^520", 2f64.powi(520)), ("2^-520", 2f64.powi(-520))] {
                let f = |p: IP| Point::new(p.0 as f64 * sc, p.1 as f64 * sc);
                let mp = MultiPoint(members.iter().map(|&p| f(p)).collect::<Vec<_>>());
                let gc = Geometry::GeometryCollection(GeometryCollection(members.iter().map(|&p| Geometry::Point(f(p))).collect()));
                for (ty, got) in [("MultiPoint", guard(|| mp.closest_point(&f(q)))), ("GeometryCollection", guard(|| gc.closest_point(&f(q))))] {
                    acc.evals += 1;
                    let ok = match &got {
                        Ok(Closest::Intersection(r)) => best == 0 && *r == f(q),
                        Ok(Closest::SinglePoint(r)) => best > 0 && members.iter().any(|&p| d2(p) == best && f(p) == *r),
                        _ => false,
                    };
                    if !ok {
                        acc.viol(format!("closest_point of a {} of points at magnitude {} is not the nearest member", ty, name), idx, || json!({"members": format!("{:?}", members), "query": format!("{:?}", q), "scale": name, "got": format!("{:?}", got)}));
                    }
                }
            }
            for (name, sc) in [("2^70 (f32)", 2f32.powi(70)), ("2^-70 (f32)", 2f32.powi(-70))] {
                let f = |p: IP| geo::Point::<f32>::new(p.0 as f32 * sc, p.1 as f32 * sc);
                let mp = geo::MultiPoint::<f32>(members.iter().map(|&p| f(p)).collect::<Vec<_>>());
                acc.evals += 1;
                let got = guard(|| mp.closest_point(&f(q)));
                let ok = match &got {
                    Ok(Closest::Intersection(r)) => best == 0 && *r == f(q),
                    Ok(Closest::SinglePoint(r)) => best > 0 && members.iter().any(|&p| d2(p) == best && f(p) == *r),
                    _ => false,
                };
                if !ok {
                    acc.viol(format!("closest_point of a MultiPoint<f32> at magnitude {} is not the nearest member", name), idx, || json!({"members": format!("{:?}", members), "query": format!("{:?}", q), "scale": name, "got": format!("{:?}", got)}));
                }
            }
        });
    }
    // geometry of tiny extent (2^-600: squared lengths underflow, lengths do not) queried from ordinary distances: never Indeterminate, and the
    // returned point is a point of the geometry, i.e. within the geometry's extent of the origin
    {
        use geo::{Line, Rect, Triangle};
        let g3t = grid(3);
        let qs: Vec<(f64, f64)> = vec![(1.0, 0.0), (0.0, -2.0), (3.0, 4.0), (-0.5, 0.25)];
        let sc = 2f64.powi(-600);
        let nt = g3t.len();
        run.stage("closest-point-tiny-geometry", nt * nt * nt * qs.len(), |idx, acc| {
            let (t, qi) = (idx / qs.len(), idx % qs.len());
            let (a, b, c3) = (g3t[t / (nt * nt)], g3t[(t / nt) % nt], g3t[t % nt]);
            if a == b || area2(&[a, b, c3]) == 0 {
                return;
            }
            let f = |p: IP| Coord { x: p.0 as f64 * sc, y: p.1 as f64 * sc };
            let q = Point::new(qs[qi].0, qs[qi].1);
            let dq = (q.x() * q.x() + q.y() * q.y()).sqrt();
            let geoms: Vec<(&str, Geometry<f64>)> = vec![
                ("Line", Geometry::Line(Line::new(f(a), f(b)))),
                ("LineString", Geometry::LineString(LineString::new(vec![f(a), f(b), f(c3)]))),
                ("Triangle", Geometry::Triangle(Triangle(f(a), f(b), f(c3)))),
                ("Polygon", Geometry::Polygon(Polygon::new(LineString::new(vec![f(a), f(b), f(c3), f(a)]), vec![]))),
                ("Rect", Geometry::Rect(Rect::new(f(a), f((a.0 + 1, a.1 + 2))))),
            ];
            acc.class("tiny geometry".into());
            for (name, g) in geoms {
                acc.evals += 1;
                match guard(|| g.closest_point(&q)) {
                    Ok(Closest::SinglePoint(r)) if r.x().abs() <= 4.0 * sc && r.y().abs() <= 4.0 * sc && (((r.x() - q.x()).powi(2) + (r.y() - q.y()).powi(2)).sqrt() - dq).abs() <= 1e-9 => {}
                    other => acc.viol(format!("closest_point of a {} of extent 2^-600 from an ordinary distance is not a point of it", name), idx, || json!({"geometry": format!("{:?}", g), "query": format!("{:?}", q), "got": format!("{:?}", other)})),
                }
            }
        });
    }
    // segments whose squared length overflows although the length does not (axis-parallel, so that the orientation predicate behind `intersects` sees no
    // overflowing product): queries that project to 1/8 .. 7/8 of the segment, at a small and at a large offset; f64 at 2^513, f32 at 2^65
    {
        run.stage("closest-point-huge-segments", 7 * 2 * 2 * 2 * 2, |idx, acc| {
            let (tk, vertical, far, reversed, f32_twin) = (idx / 16 + 1, (idx / 8) % 2 == 1, (idx / 4) % 2 == 1, (idx / 2) % 2 == 1, idx % 2 == 1);
            acc.class(format!("huge segment f32{} vertical{}", f32_twin, vertical));
            macro_rules! go {
                ($t:ty, $e:expr, $tol:expr) => {{
                    let len: $t = (2.0 as $t).powi($e);
                    let t = tk as $t / 8.0;
                    let off: $t = if far { len / 1024.0 } else { 3.0 };
                    let mk = |along: $t, across: $t| if vertical { Coord::<$t> { x: across, y: along } } else { Coord::<$t> { x: along, y: across } };
                    let (s0, s1) = if reversed { (mk(len, 0.0), mk(0.0, 0.0)) } else { (mk(0.0, 0.0), mk(len, 0.0)) };
                    let line = geo::Line::new(s0, s1);
                    let q = geo::Point(mk(t * len, off));
                    let want = mk(t * len, 0.0);
                    acc.evals += 2;
                    for (name, got) in [("Line", guard(|| line.closest_point(&q))), ("LineString", guard(|| geo::LineString::new(vec![s0, s1]).closest_point(&q)))] {
                        let ok = match &got {
                            Ok(Closest::SinglePoint(r)) => ((r.x() - want.x).abs() as f64) <= $tol * len as f64 && ((r.y() - want.y).abs() as f64) <= $tol * len as f64,
                            _ => false,
                        };
                        if !ok {
                            acc.viol(format!("closest_point<{}> of a {} whose squared length overflows is not the foot of the perpendicular", stringify!($t), name), idx, || json!({"segment": format!("{:?}", line), "query": format!("{:?}", q), "expected": format!("{:?}", want), "got": format!("{:?}", got)}));
                        }
                    }
                }};
            }
            if f32_twin {
                go!(f32, 65, 1e-6);
            } else {
                go!(f64, 513, 1e-14);
            }
        });
    }
    // closest_point on longer segments: projection parameters that are not representable (thirds, sevenths ...)
    let gq: Vec<IP> = { let m = if quick { 11 } else { 15 }; grid(m).into_iter().map(|p| (2 * p.0 - 5, p.1 - 3)).collect() };
    let ngq = gq.len();
    run.stage("closest-point-long-segments", ngq * ngq * ngq, |idx, acc| {
        let (a, b, p) = (gq[idx / (ngq * ngq)], gq[(idx / ngq) % ngq], gq[idx % ngq]);
        if a == b {
            return;
        }
        let on = on_seg_i(a, b, p);
        let line = geo::Line::new(c(a), c(b));
        let lsg = ls(&[a, b, (b.0 + 1, b.1 + 3)]);
        let on_ls = on || on_seg_i(b, (b.0 + 1, b.1 + 3), p);
        let pt = Point::new(p.0 as f64, p.1 as f64);
        let hp = HP::int(p);
        acc.class(format!("long-seg on{} len2={}", on, ((a.0 - b.0).pow(2) + (a.1 - b.1).pow(2)).min(9)));
        acc.sample(idx, || json!({"segment": format!("{:?}->{:?}", a, b), "query": format!("{:?}", p), "on_segment": on}));
        for (name, got, is_on, d2) in [
            ("Line", guard(|| line.closest_point(&pt)), on, d2_hp_seg(&hp, a, b)),
            ("LineString", guard(|| lsg.closest_point(&pt)), on_ls, d2_hp_seg(&hp, a, b).min(d2_hp_seg(&hp, b, (b.0 + 1, b.1 + 3)))),
        ] {
            acc.evals += 1;
            let w = |g: String| json!({"segment": format!("{:?}->{:?}", a, b), "type": name, "query": format!("{:?}", p), "on_segment": is_on, "got": g});
            match got {
                Err(e) => acc.viol(format!("closest_point panic {} (long segment)", name), idx, || w(e)),
                Ok(Closest::Indeterminate) => acc.viol(format!("closest_point Indeterminate {} (long segment)", name), idx, || w("Indeterminate".into())),
                Ok(Closest::Intersection(r)) => {
                    // the payload is the query point up to rounding of the computed foot (coordinates up to a few thousand here)
                    if !is_on || (r.x() - pt.x()).abs() > 1e-11 || (r.y() - pt.y()).abs() > 1e-11 {
                        acc.viol(format!("closest_point Intersection for a point off the {} (or not the query point)", name), idx, || w(format!("Intersection({:?})", r)));
                    }
                }
                Ok(Closest::SinglePoint(r)) => {
                    if is_on {
                        acc.viol(format!("closest_point SinglePoint although the query lies on the {}", name), idx, || w(format!("SinglePoint({:?})", r)));
                    } else {
                        let want = d2.f();
                        let got2 = (r.x() - pt.x()).powi(2) + (r.y() - pt.y()).powi(2);
                        if (got2 - want).abs() > 1e-9 * want {
                            acc.viol(format!("closest_point result is not at the minimum distance {} (long segment)", name), idx, || w(format!("SinglePoint({:?})", r)));
                        }
                        // feed the (rounded) result back in: Intersection exactly when it lies on the line by exact arithmetic on its f64 value
                        if name == "Line" {
                            let rq = (r.x(), r.y());
                            let exact_on = crate::bigf::on_segment((a.0 as f64, a.1 as f64), (b.0 as f64, b.1 as f64), rq);
                            acc.evals += 1;
                            match guard(|| line.closest_point(&r)) {
                                Ok(Closest::Intersection(_)) if exact_on => {}
                                Ok(Closest::SinglePoint(_)) if !exact_on => {}
                                other => acc.viol("closest_point re-queried with its own (rounded) result: Intersection iff the point is exactly on the Line - violated".into(), idx, || w(format!("first {:?}, exactly on the line: {}, second {:?}", r, exact_on, other))),
                            }
                        }
                    }
                }
            }
        }
    });
    // interior_point on every shape
    run.stage("interior-point", n, |idx, acc| {
        let s = &subs[idx];
        check_interior(acc, idx, s);
    });
    // concave shapes and slivers on G4 (centroid outside), polygons with touching holes
    let mut extra: Vec<Subject> = vec![];
    for r in rings(4, 6).into_iter().step_by(if quick { 7 } else { 1 }) {
        let p = Poly { shell: r, holes: vec![] };
        extra.push(Subject { parts: vec![AG::Polys(vec![p.clone()])], g: Geometry::Polygon(poly(&p)), fam: "PG4" });
    }
    for p in super::c10::polys(quick).into_iter().filter(|x| !x.0.holes.is_empty()) {
        extra.push(Subject { parts: vec![AG::Polys(vec![p.0.clone()])], g: Geometry::Polygon(poly(&p.0)), fam: if p.1 { "PGH-touching" } else { "PGH" } });
    }
    // degenerate inputs: must intersect, None only when empty
    extra.push(Subject { parts: vec![], g: Geometry::LineString(LineString::new(vec![])), fam: "EMPTY" });
    extra.push(Subject { parts: vec![], g: Geometry::Polygon(Polygon::new(LineString::new(vec![]), vec![])), fam: "EMPTY" });
    extra.push(Subject { parts: vec![], g: Geometry::GeometryCollection(GeometryCollection(vec![])), fam: "EMPTY" });
    let ne = extra.len();
    run.stage("interior-point-concave-holes", ne, |idx, acc| check_interior(acc, idx, &extra[idx]));
    // TJ(n): triangle shell x triangular hole with one vertex in the interior of a shell edge
    let tn: i64 = run.ctx.pick(7, 9);
    let g = grid(tn);
    let tris: Vec<Vec<IP>> = rings_over(&g, 3);
    let nt = tris.len();
    let g2 = g.clone();
    run.extra.insert("tj_lattice".into(), json!(tn));
    run.stage("interior-point-TJ", nt, move |idx, acc| {
        let shell = &tris[idx];
        // lattice points strictly inside, and in the interior of an edge
        let inside: Vec<IP> = g2.iter().cloned().filter(|&p| ring_pos(shell, &HP::int(p)) == 2).collect();
        let on_edge: Vec<IP> = g2.iter().cloned().filter(|&p| !shell.contains(&p) && ring_pos(shell, &HP::int(p)) == 1).collect();
        for &t in &on_edge {
            for i in 0..inside.len() {
                for j in i + 1..inside.len() {
                    let hole = vec![t, inside[i], inside[j]];
                    if area2(&hole) == 0 {
                        continue;
                    }
                    let p = Poly { shell: shell.clone(), holes: vec![hole] };
                    // valid by construction: two hole vertices strictly inside a convex shell, one on an edge
                    let pg = poly(&p);
                    acc.evals += 1;
                    acc.count("TJ polygons", 1);
                    match guard(|| pg.interior_point()) {
                        Err(e) => acc.viol("interior_point panic (polygon whose hole has a vertex in the interior of a shell edge)".into(), idx, || json!({"polygon": format!("{:?}", pg), "panic": e})),
                        Ok(None) => acc.viol("interior_point None for a valid polygon (TJ family)".into(), idx, || json!({"polygon": format!("{:?}", pg)})),
                        Ok(Some(q)) => {
                            if locate_f(&AG::Polys(vec![p.clone()]), q.x(), q.y()) != I {
                                acc.viol("interior_point not strictly inside a valid polygon (TJ family)".into(), idx, || json!({"polygon": format!("{:?}", pg), "got": format!("{:?}", q)}));
                            }
                        }
                    }
                }
            }
        }
        acc.class(format!("TJ edge-points{} inside{}", on_edge.len().min(3), inside.len().min(4)));
        acc.sample(idx, || json!({"shell": format!("{:?}", shell), "lattice_points_inside": inside.len(), "lattice_points_on_edges": on_edge.len()}));
    });
    run.finish()
}

fn check_interior(acc: &mut Acc, idx: usize, s: &Subject) {
    acc.evals += 1;
    let got = guard(|| s.g.interior_point());
    let empty = s.parts.iter().all(|p| p.is_empty());
    acc.class(format!("interior {} {}", tname(&s.g), s.fam));
    acc.sample(idx, || json!({"geometry": format!("{:?}", s.g)}));
    let w = |g: String| json!({"geometry": format!("{:?}", s.g), "got": g});
    match got {
        Err(e) => acc.viol(format!("interior_point panic {} {}", tname(&s.g), s.fam), idx, || w(e)),
        Ok(None) => {
            if !empty {
                acc.viol(format!("interior_point None for a non-empty {}", tname(&s.g)), idx, || w("None".into()));
            }
        }
        Ok(Some(q)) => {
            if empty {
                acc.viol("interior_point Some for an empty geometry".into(), idx, || w(format!("{:?}", q)));
                return;
            }
            let loc = s.locate_tol(q.x(), q.y());
            if loc == E {
                acc.viol(format!("interior_point does not intersect the {}", tname(&s.g)), idx, || w(format!("{:?}", q)));
            } else {
                // strictly inside the part of highest dimension (which has interior of its own dimension on these families)
                let md = s.max_dim();
                let top: Vec<&AG> = s.parts.iter().filter(|p| p.dim() == md && !p.is_empty()).collect();
                let in_top = top.iter().any(|p| locate_f(p, q.x(), q.y()) == I);
                if !in_top {
                    // linework all of whose members are single segments has no interior vertex to return
                    let start_of_segment_member = md == 1
                        && top.iter().any(|p| matches!(p, AG::Lines(ls) if ls.iter().any(|l| l.len() == 2 && l[0].0 as f64 == q.x() && l[0].1 as f64 == q.y())));
                    if start_of_segment_member {
                        acc.viol(format!("interior_point returns the start point (boundary) of a single-segment member: {}", tname(&s.g)), idx, || w(format!("{:?}", q)));
                        return;
                    }
                    // the same choice in disguise: a single segment written with a repeated coordinate has 'interior vertices' that are copies of its end points
                    let end_of_repeated_segment_member = md == 1
                        && s.fam == "LSdup"
                        && top.iter().any(|p| matches!(p, AG::Lines(ls) if ls.iter().any(|l| l.len() == 2 && l.iter().any(|v| v.0 as f64 == q.x() && v.1 as f64 == q.y()))));
                    if end_of_repeated_segment_member {
                        acc.viol(format!("interior_point returns an end point (boundary) of a single segment written with a repeated coordinate: {}", tname(&s.g)), idx, || w(format!("{:?}", q)));
                        return;
                    }
                    let two = "";
                    acc.viol(format!("interior_point is on the boundary, not in the interior: {} {} {}", tname(&s.g), s.fam, two), idx, || w(format!("{:?}", q)));
                }
            }
        }
    }
}

//! C16 Haversine, geodesic and rhumb measures are mutually consistent (identities on a lon/lat lattice).
use crate::engine::*;
use geo::{Bearing, Destination, Distance, Geodesic, GeodesicMeasure, Haversine, HaversineMeasure, InterpolatePoint, Length, LineString, Point, Rhumb};
use serde_json::json;

fn ang_sep_deg(a: (f64, f64), b: (f64, f64)) -> f64 {
    let (l1, p1, l2, p2) = (a.0.to_radians(), a.1.to_radians(), b.0.to_radians(), b.1.to_radians());
    let v1 = (p1.cos() * l1.cos(), p1.cos() * l1.sin(), p1.sin());
    let v2 = (p2.cos() * l2.cos(), p2.cos() * l2.sin(), p2.sin());
    let dot = (v1.0 * v2.0 + v1.1 * v2.1 + v1.2 * v2.2).clamp(-1.0, 1.0);
    let cr = ((v1.1 * v2.2 - v1.2 * v2.1).powi(2) + (v1.2 * v2.0 - v1.0 * v2.2).powi(2) + (v1.0 * v2.1 - v1.1 * v2.0).powi(2)).sqrt();
    cr.atan2(dot).to_degrees()
}

macro_rules! space_pair_checks {
    ($acc:expr, $idx:expr, $name:expr, $sp:expr, $a:expr, $b:expr, $scale:expr) => {
        space_pair_checks!($acc, $idx, $name, $sp, $a, $b, $scale, true)
    };
    ($acc:expr, $idx:expr, $name:expr, $sp:expr, $a:expr, $b:expr, $scale:expr, $range:expr) => {{
        let (acc, idx, name, sp, a, b, scale): (&mut Acc, usize, &str, _, (f64, f64), (f64, f64), f64) = ($acc, $idx, $name, $sp, $a, $b, $scale);
        let bearing_range: bool = $range;
        let (pa, pb) = (Point::new(a.0, a.1), Point::new(b.0, b.1));
        let w = |d: String| json!({"space": name, "a": [a.0, a.1], "b": [b.0, b.1], "detail": d});
        let r = guard(|| {
            let d = sp.distance(pa, pb);
            let d2 = sp.distance(pb, pa);
            let brg = sp.bearing(pa, pb);
            let dest = sp.destination(pa, brg, d);
            let back = sp.distance(dest, pb);
            (d, d2, brg, dest, back)
        });
        acc.evals += 5;
        match r {
            Err(e) => acc.viol(format!("{} panic on a lattice pair", name), idx, || w(e)),
            Ok((d, d2, brg, dest, back)) => {
                let sep = ang_sep_deg(a, b);
                // within ~2% of antipodal, or an end point within a degree of a pole ('away from poles and antipodes')
                let excluded = sep > 176.0 || a.1.abs() > 89.0 || b.1.abs() > 89.0;
                acc.maxf(&format!("{} symmetry |d(a,b)-d(b,a)| (m, scaled)", name), (d - d2).abs() / scale);
                if !(d >= 0.0) || !d.is_finite() {
                    acc.viol(format!("{} distance negative or not finite", name), idx, || w(format!("d={}", d)));
                }
                if a == b && d != 0.0 {
                    acc.viol(format!("{} distance of identical points is not zero", name), idx, || w(format!("d={}", d)));
                }
                if (d - d2).abs() > 1e-6 * scale {
                    acc.viol(format!("{} distance not symmetric", name), idx, || w(format!("d(a,b)={} d(b,a)={}", d, d2)));
                }
                if bearing_range && a != b && !(brg >= 0.0 && brg < 360.0) {
                    acc.viol(format!("{} bearing outside [0,360)", name), idx, || w(format!("bearing={}", brg)));
                }
                if !(dest.x() >= -180.0 && dest.x() <= 180.0 && dest.y() >= -90.0 && dest.y() <= 90.0) {
                    acc.viol(format!("{} destination outside lon [-180,180] / lat [-90,90]", name), idx, || w(format!("{:?}", dest)));
                }
                if !excluded {
                    acc.maxf(&format!("{} round trip error (m, scaled)", name), back / scale);
                    if !(back <= 1e-3 * scale) {
                        acc.viol(format!("{} travelling bearing(a,b) for distance(a,b) from a does not arrive at b", name), idx, || w(format!("d={} bearing={} dest={:?} off by {} m", d, brg, dest, back)));
                    }
                    for ratio in [0.0, 0.25, 0.5, 0.75, 1.0] {
                        acc.evals += 1;
                        match guard(|| {
                            let m = sp.point_at_ratio_between(pa, pb, ratio);
                            (m, sp.distance(pa, m))
                        }) {
                            Err(e) => acc.viol(format!("{} point_at_ratio_between panic", name), idx, || w(e)),
                            Ok((m, dm)) => {
                                acc.maxf(&format!("{} ratio error (m, scaled)", name), (dm - ratio * d).abs() / scale);
                                if !((dm - ratio * d).abs() <= 1e-3 * scale) {
                                    acc.viol(format!("{} point_at_ratio_between does not divide the distance in the ratio", name), idx, || w(format!("ratio={} d={} d(a,m)={} m={:?}", ratio, d, dm, m)));
                                }
                                if !(m.x() >= -180.0 && m.x() <= 180.0 && m.y() >= -90.0 && m.y() <= 90.0) {
                                    acc.viol(format!("{} interpolated point outside lon/lat range", name), idx, || w(format!("{:?}", m)));
                                }
                            }
                        }
                    }
                }
                // points_along_line in the same measure: end points included, consecutive points no farther apart than the maximum, every
                // point on the way from a to b (d(a,p) + d(p,b) = d(a,b)) in increasing distance from a
                if !excluded && d > 0.0 && idx % 3 == 0 {
                    for div in [2.6, 7.3] {
                        let max = d / div;
                        acc.evals += 1;
                        match guard(|| sp.points_along_line(pa, pb, max, true).collect::<Vec<Point<f64>>>()) {
                            Err(e) => acc.viol(format!("{} points_along_line panic", name), idx, || w(e)),
                            Ok(pts) => {
                                let tol = 1e-3 * scale;
                                let mut bad: Option<String> = None;
                                if pts.len() < 2 || sp.distance(pts[0], pa) > tol || sp.distance(pts[pts.len() - 1], pb) > tol {
                                    bad = Some("end points are not included".into());
                                } else {
                                    let mut last = -1.0;
                                    for (i, p) in pts.iter().enumerate() {
                                        let (da, db) = (sp.distance(pa, *p), sp.distance(*p, pb));
                                        if (da + db - d).abs() > 1e-3 * scale.max(1.0) * 10.0 {
                                            bad = Some(format!("point {} is not on the way from a to b: d(a,p)+d(p,b)={} d={}", i, da + db, d));
                                            break;
                                        }
                                        if da < last - tol {
                                            bad = Some(format!("points are not in increasing distance from a at {}", i));
                                            break;
                                        }
                                        last = da;
                                        if i > 0 && sp.distance(pts[i - 1], *p) > max * (1.0 + 1e-9) + tol {
                                            bad = Some(format!("consecutive points {} and {} are farther apart ({}) than the maximum {}", i - 1, i, sp.distance(pts[i - 1], *p), max));
                                            break;
                                        }
                                    }
                                }
                                // and not absurdly many: about d / max steps
                                if bad.is_none() && pts.len() as f64 > (d / max).ceil() + 3.0 {
                                    bad = Some(format!("{} points for about {} steps", pts.len(), (d / max).ceil()));
                                }
                                if let Some(m) = bad {
                                    acc.viol(format!("{} points_along_line is inconsistent with distance in the same measure", name), idx, || w(format!("max={} points={} : {}", max, pts.len(), m)));
                                }
                            }
                        }
                    }
                }
                // length of a 3-point line string = sum of segment distances
                let mid = Point::new((a.0 + b.0) / 2.0, ((a.1 + b.1) / 2.0 + 7.0).clamp(-80.0, 80.0));
                let ls = LineString::from(vec![pa, mid, pb]);
                if let Ok((l, s)) = guard(|| (sp.length(&ls), sp.distance(pa, mid) + sp.distance(mid, pb))) {
                    if (l - s).abs() > 1e-6 * scale {
                        acc.viol(format!("{} length of a line string is not the sum of its segment distances", name), idx, || w(format!("length={} sum={}", l, s)));
                    }
                    // the other measurable types: a Line is its one segment, a MultiLineString the sum of its members
                    let line = geo::Line::new(pa.0, pb.0);
                    let mls = geo::MultiLineString(vec![ls.clone(), LineString::from(vec![pb, pa]), LineString::<f64>(vec![])]);
                    // members without a segment (empty, one coordinate) at the front and in the middle must not hide the members after them
                    for (pos, degenerate) in [(0usize, LineString::<f64>(vec![])), (1, LineString::<f64>(vec![])), (0, LineString::from(vec![mid])), (1, LineString::from(vec![mid]))] {
                        let mut members = vec![ls.clone(), LineString::from(vec![pb, pa])];
                        let what = if degenerate.0.is_empty() { "an empty" } else { "a one-coordinate" };
                        members.insert(pos, degenerate);
                        acc.evals += 1;
                        if let Ok(lm) = guard(|| sp.length(&geo::MultiLineString(members))) {
                            if (lm - (l + d2)).abs() > 1e-6 * scale {
                                acc.viol(format!("{} length of a MultiLineString with {} member {} is not the sum of its members", name, what, if pos == 0 { "first" } else { "in the middle" }), idx, || w(format!("length={} sum={}", lm, l + d2)));
                            }
                        }
                    }
                    if let Ok((ll, lm)) = guard(|| (sp.length(&line), sp.length(&mls))) {
                        acc.evals += 2;
                        if (ll - d).abs() > 1e-6 * scale {
                            acc.viol(format!("{} length of a Line is not the distance of its end points", name), idx, || w(format!("length={} distance={}", ll, d)));
                        }
                        if (lm - (l + d2)).abs() > 1e-6 * scale {
                            acc.viol(format!("{} length of a MultiLineString is not the sum of its members", name), idx, || w(format!("length={} sum={}", lm, l + d2)));
                        }
                    }
                }
            }
        }
    }};
}

/// The deprecated per-function traits are entry points into the same three metric spaces; wrapped so that the same identities run on them.
#[allow(deprecated)]
mod legacy {
    use geo::*;
    pub struct H;
    pub struct G;
    pub struct R;
    impl H {
        pub fn distance(&self, a: Point<f64>, b: Point<f64>) -> f64 { a.haversine_distance(&b) }
        pub fn bearing(&self, a: Point<f64>, b: Point<f64>) -> f64 { a.haversine_bearing(b) }
        pub fn destination(&self, a: Point<f64>, brg: f64, d: f64) -> Point<f64> { a.haversine_destination(brg, d) }
        pub fn point_at_ratio_between(&self, a: Point<f64>, b: Point<f64>, r: f64) -> Point<f64> { a.haversine_intermediate(&b, r) }
        pub fn points_along_line(&self, a: Point<f64>, b: Point<f64>, max: f64, ends: bool) -> std::vec::IntoIter<Point<f64>> { a.haversine_intermediate_fill(&b, max, ends).into_iter() }
        pub fn length(&self, g: &impl HaversineLength<f64>) -> f64 { g.haversine_length() }
    }
    impl G {
        pub fn distance(&self, a: Point<f64>, b: Point<f64>) -> f64 { a.geodesic_distance(&b) }
        pub fn bearing(&self, a: Point<f64>, b: Point<f64>) -> f64 { a.geodesic_bearing(b) }
        pub fn destination(&self, a: Point<f64>, brg: f64, d: f64) -> Point<f64> { a.geodesic_destination(brg, d) }
        pub fn point_at_ratio_between(&self, a: Point<f64>, b: Point<f64>, r: f64) -> Point<f64> { a.geodesic_intermediate(&b, r) }
        pub fn points_along_line(&self, a: Point<f64>, b: Point<f64>, max: f64, ends: bool) -> std::vec::IntoIter<Point<f64>> { a.geodesic_intermediate_fill(&b, max, ends).into_iter() }
        pub fn length(&self, g: &impl GeodesicLength<f64>) -> f64 { g.geodesic_length() }
    }
    impl R {
        pub fn distance(&self, a: Point<f64>, b: Point<f64>) -> f64 { a.rhumb_distance(&b) }
        pub fn bearing(&self, a: Point<f64>, b: Point<f64>) -> f64 { a.rhumb_bearing(b) }
        pub fn destination(&self, a: Point<f64>, brg: f64, d: f64) -> Point<f64> { a.rhumb_destination(brg, d) }
        pub fn point_at_ratio_between(&self, a: Point<f64>, b: Point<f64>, r: f64) -> Point<f64> { a.rhumb_intermediate(&b, r) }
        pub fn points_along_line(&self, a: Point<f64>, b: Point<f64>, max: f64, ends: bool) -> std::vec::IntoIter<Point<f64>> { a.rhumb_intermediate_fill(&b, max, ends).into_iter() }
        pub fn length(&self, g: &impl RhumbLength<f64>) -> f64 { g.rhumb_length() }
    }
}

macro_rules! space_dest_checks {
    ($acc:expr, $idx:expr, $name:expr, $sp:expr, $a:expr, $scale:expr) => {{
        let (acc, idx, name, sp, a, scale): (&mut Acc, usize, &str, _, (f64, f64), f64) = ($acc, $idx, $name, $sp, $a, $scale);
        let pa = Point::new(a.0, a.1);
        // journeys of several times the circumference (a loxodrome winds around the globe any number of times): the result must still be a lon/lat in
        // range and must not depend on how the bearing is written
        // (a loxodrome that is not a parallel ends at a pole after a finite distance, so for Rhumb only due east / due west can be prolonged at will)
        for brg in [90.0, 270.0, 80.0, 45.0, 135.0, 100.0] {
            if name.starts_with("Rhumb") && brg != 90.0 && brg != 270.0 {
                continue;
            }
            for dist in [2.0e7, 4.5e7, 1.0e8, 3.3e8, 1.0e9] {
                let d = dist * scale;
                acc.evals += 2;
                let w = |s: String| json!({"space": name, "a": [a.0, a.1], "bearing": brg, "distance": d, "detail": s});
                match guard(|| (sp.destination(pa, brg, d), sp.destination(pa, brg - 360.0, d))) {
                    Err(e) => acc.viol(format!("{} destination panic (long journey)", name), idx, || w(e)),
                    Ok((p, q)) => {
                        if !(p.x() >= -180.0 && p.x() <= 180.0 && p.y() >= -90.0 && p.y() <= 90.0) {
                            acc.viol(format!("{} destination of a long journey outside lon [-180,180] / lat [-90,90]", name), idx, || w(format!("{:?}", p)));
                        } else if !(sp.distance(p, q) <= 1e-3 * scale * (dist / 1.0e6)) {
                            acc.viol(format!("{} destination of a long journey is not 360-periodic in the bearing", name), idx, || w(format!("{:?} vs {:?}", p, q)));
                        }
                    }
                }
            }
        }
        for brg in [-90.0, 0.0, 45.0, 359.999, 360.0, 450.0, 123.0] {
            for dist in [0.0, 1.0, 1.0e5, 1.0e6, -1000.0] {
                let d = dist * scale;
                acc.evals += 3;
                let w = |s: String| json!({"space": name, "a": [a.0, a.1], "bearing": brg, "distance": d, "detail": s});
                match guard(|| (sp.destination(pa, brg, d), sp.destination(pa, brg + 360.0, d), sp.destination(pa, brg + 180.0, -d))) {
                    Err(e) => acc.viol(format!("{} destination panic", name), idx, || w(e)),
                    Ok((p, p360, pneg)) => {
                        if !(p.x() >= -180.0 && p.x() <= 180.0 && p.y() >= -90.0 && p.y() <= 90.0) {
                            acc.viol(format!("{} destination outside lon [-180,180] / lat [-90,90]", name), idx, || w(format!("{:?}", p)));
                            continue;
                        }
                        let off = |q: Point<f64>| sp.distance(p, q);
                        if !(off(p360) <= 1e-3 * scale) {
                            acc.viol(format!("{} destination is not 360-periodic in the bearing", name), idx, || w(format!("{:?} vs {:?}", p, p360)));
                        }
                        if !(off(pneg) <= 1e-3 * scale) {
                            acc.viol(format!("{} destination(bearing, d) differs from destination(bearing+180, -d)", name), idx, || w(format!("{:?} vs {:?}", p, pneg)));
                        }
                        let dd = sp.distance(pa, p);
                        if (dd - d.abs()).abs() > 1e-3 * scale {
                            acc.viol(format!("{} distance to the destination is not the travelled distance", name), idx, || w(format!("dest={:?} d(a,dest)={}", p, dd)));
                        }
                    }
                }
            }
        }
    }};
}

pub fn run(mut run: Run) -> i32 {
    let quick = run.ctx.quick();
    run.rule = "all ordered pairs of a lon/lat lattice (quick 10 deg, thorough 4 deg; lon -180..180, lat -80..80) plus, for every lattice point, 8 neighbours at 1e-6 deg and cross-antimeridian partners, in Haversine, Geodesic, Rhumb and custom sphere/ellipsoid measures: \
        destination(a, bearing(a,b), distance(a,b)) within 1 mm of b (pairs within ~2% of antipodal excluded), symmetry within 1 um, non-negativity, d(a,a)=0, point_at_ratio_between divides the distance, line-string length = sum, bearing in [0,360), outputs in lon/lat range; \
        destination for bearings {-90,0,45,123,359.999,360,450} x distances {0,1,1e5,1e6,-1000}: periodicity, negative distance, travelled distance; distinct = (space, separation class)"
        .into();
    run.assumptions = vec![
        "identities on a lattice say nothing between lattice points; exhaustive for the stated lattice only".into(),
        "tolerances are scaled by radius/earth radius for the custom measures".into(),
    ];
    let step = if quick { 10.0 } else { 4.0 };
    let latmax = 80.0;
    let mut pts: Vec<(f64, f64)> = vec![];
    let mut lon = -180.0;
    while lon <= 180.0 {
        let mut lat = -latmax;
        while lat <= latmax {
            pts.push((lon, lat));
            lat += step;
        }
        lon += step;
    }
    let n = pts.len();
    run.extra.insert("lattice_points".into(), json!(n));
    let small = HaversineMeasure::new(1000.0);
    let unit_sphere = HaversineMeasure::new(1.0);
    let big_sphere = HaversineMeasure::new(24622000.0);
    run.stage("lattice-pairs", n * n, |idx, acc| {
        let (a, b) = (pts[idx / n], pts[idx % n]);
        let sep = ang_sep_deg(a, b);
        acc.class(format!("sep{} samelon{} antimeridian{}", (sep / 30.0) as i32, a.0 == b.0, (a.0 - b.0).abs() > 180.0));
        acc.sample(idx, || json!({"a": [a.0, a.1], "b": [b.0, b.1], "separation_deg": sep}));
        space_pair_checks!(acc, idx, "Haversine", &Haversine, a, b, 1.0);
        space_pair_checks!(acc, idx, "Geodesic", &Geodesic, a, b, 1.0);
        space_pair_checks!(acc, idx, "Rhumb", &Rhumb, a, b, 1.0);
        if idx % 3 == 0 {
            space_pair_checks!(acc, idx, "HaversineMeasure(r=1000)", &small, a, b, 1000.0 / 6371008.8);
            // a sphere much larger than the Earth (Neptune), so that any leftover use of the default radius shows as too few points / too long steps
            space_pair_checks!(acc, idx, "HaversineMeasure(r=24622000)", &big_sphere, a, b, 24622000.0 / 6371008.8);
            let mars = GeodesicMeasure::new(3396190.0, 0.00589) /* the parameter is named inverse_flattening but is handed to geographiclib as the flattening f */;
            space_pair_checks!(acc, idx, "GeodesicMeasure(mars)", &mars, a, b, 3396190.0 / 6378137.0);
        }
    });
    // the deprecated per-function traits (haversine_distance, geodesic_bearing, rhumb_intermediate_fill, ...) are entry points into the same spaces
    // (their bearings are documented as 'north is 0, east is 90' without a range and come back in (-180, 180]: the [0, 360) clause is not applied to them)
    let lstep = if quick { 5 } else { 2 };
    run.stage("lattice-pairs-deprecated-entry-points", (n * n + lstep - 1) / lstep, |k, acc| {
        let idx = k * lstep;
        let (a, b) = (pts[idx / n], pts[idx % n]);
        acc.class(format!("legacy sep{}", (ang_sep_deg(a, b) / 30.0) as i32));
        space_pair_checks!(acc, idx, "legacy Haversine traits", &legacy::H, a, b, 1.0, false);
        space_pair_checks!(acc, idx, "legacy Geodesic traits", &legacy::G, a, b, 1.0, false);
        space_pair_checks!(acc, idx, "legacy Rhumb traits", &legacy::R, a, b, 1.0, false);
    });
    // the poles and their neighbourhood: the round trip is exempt there, everything else (symmetry, sign, zero, bearing range, output range, lengths) is not
    let polar: Vec<(f64, f64)> = vec![(0.0, 90.0), (37.0, 90.0), (-180.0, 90.0), (0.0, -90.0), (123.0, -90.0), (10.0, 89.999), (-170.0, -89.999), (180.0, 89.5)];
    run.stage("polar-partners", polar.len() * (n + polar.len()) * 2, |idx, acc| {
        let (k, swap) = (idx / 2, idx % 2 == 1);
        let p = polar[k / (n + polar.len())];
        let j = k % (n + polar.len());
        // (every third lattice partner is moved off the lattice: journeys to a pole from latitudes such as -12 or 47.5 round differently)
        let q = if j < n { if j % 3 == 1 { (pts[j].0, (pts[j].1 * 0.9 - 3.0).clamp(-89.0, 89.0)) } else { pts[j] } } else { polar[j - n] };
        let (a, b) = if swap { (q, p) } else { (p, q) };
        acc.class(format!("polar lat{} first{}", p.1, !swap));
        space_pair_checks!(acc, idx, "Haversine", &Haversine, a, b, 1.0);
        space_pair_checks!(acc, idx, "Geodesic", &Geodesic, a, b, 1.0);
        // a rhumb line is singular exactly at a pole (Mercator ordinate infinite): those pairs get their own signature class
        let at_pole = a.1.abs() == 90.0 || b.1.abs() == 90.0;
        space_pair_checks!(acc, idx, if at_pole { "Rhumb (an end point exactly at a pole)" } else { "Rhumb" }, &Rhumb, a, b, 1.0);
    });
    // neighbours and antimeridian partners
    let offs: Vec<(f64, f64)> = vec![(1e-6, 0.0), (-1e-6, 0.0), (0.0, 1e-6), (0.0, -1e-6), (1e-6, 1e-6), (-1e-6, 1e-6), (1e-6, -1e-6), (-1e-6, -1e-6), (0.0, 0.0)];
    run.stage("neighbours", n * offs.len(), |idx, acc| {
        let a = pts[idx / offs.len()];
        let o = offs[idx % offs.len()];
        let b = ((a.0 + o.0).clamp(-180.0, 180.0), a.1 + o.1);
        acc.class(format!("neighbour {:?}", o));
        space_pair_checks!(acc, idx, "Haversine", &Haversine, a, b, 1.0);
        space_pair_checks!(acc, idx, "Geodesic", &Geodesic, a, b, 1.0);
        space_pair_checks!(acc, idx, "Rhumb", &Rhumb, a, b, 1.0);
        // nearly coincident points on spheres of other sizes (a unit sphere measures in radians): nothing may depend on an absolute number of metres
        space_pair_checks!(acc, idx, "HaversineMeasure(r=1)", &unit_sphere, a, b, 1.0 / 6371008.8);
        space_pair_checks!(acc, idx, "HaversineMeasure(r=1000)", &small, a, b, 1000.0 / 6371008.8);
        space_pair_checks!(acc, idx, "HaversineMeasure(r=24622000)", &big_sphere, a, b, 24622000.0 / 6371008.8);
    });
    // long line strings (hundreds to thousands of coordinates): the length is the sum of the segment distances, whatever block size a summation uses
    {
        let sizes: Vec<usize> = if quick { vec![2, 3, 255, 256, 257, 258, 513, 1000, 4097] } else { vec![2, 3, 63, 64, 65, 127, 128, 129, 255, 256, 257, 258, 511, 512, 513, 1000, 1023, 1024, 1025, 4096, 4097, 10001, 65537] };
        run.stage("long-line-string-lengths", sizes.len(), |idx, acc| {
            let m = sizes[idx];
            let cs: Vec<Point<f64>> = (0..m).map(|i| Point::new(-30.0 + 0.01 * i as f64 + 0.003 * ((i * 7) % 5) as f64, 40.0 + 0.02 * ((i * 3) % 11) as f64 - 0.004 * i as f64 % 1.0)).collect();
            let ls = LineString::from(cs.clone());
            acc.class("long line string".into());
            macro_rules! go {
                ($name:expr, $sp:expr) => {{
                    acc.evals += 1;
                    let sum: f64 = cs.windows(2).map(|w| $sp.distance(w[0], w[1])).sum();
                    match guard(|| $sp.length(&ls)) {
                        Err(e) => acc.viol(format!("{} length of a long line string panic", $name), idx, || json!({"coordinates": m, "panic": e})),
                        Ok(l) => {
                            if (l - sum).abs() > 1e-9 * sum.max(1.0) {
                                acc.viol(format!("{} length of a long line string is not the sum of its segment distances", $name), idx, || json!({"coordinates": m, "length": l, "sum": sum}));
                            }
                        }
                    }
                }};
            }
            go!("Haversine", Haversine);
            go!("Geodesic", Geodesic);
            go!("Rhumb", Rhumb);
            go!("HaversineMeasure(r=1000)", small);
            go!("Euclidean", geo::Euclidean);
        });
    }
    let lats: Vec<f64> = pts.iter().filter(|p| p.0 == 0.0).map(|p| p.1).collect();
    let nl = lats.len();
    run.stage("antimeridian", nl * nl * 2, |idx, acc| {
        let (la, lb) = (lats[(idx / 2) / nl], lats[(idx / 2) % nl]);
        let (a, b) = if idx % 2 == 0 { ((179.5, la), (-179.5, lb)) } else { ((-179.9, la), (179.0, lb)) };
        acc.class("antimeridian".into());
        space_pair_checks!(acc, idx, "Haversine", &Haversine, a, b, 1.0);
        space_pair_checks!(acc, idx, "Geodesic", &Geodesic, a, b, 1.0);
        space_pair_checks!(acc, idx, "Rhumb", &Rhumb, a, b, 1.0);
    });
    run.stage("destinations", n, |idx, acc| {
        let a = pts[idx];
        acc.class(format!("dest lat{}", a.1));
        space_dest_checks!(acc, idx, "Haversine", &Haversine, a, 1.0);
        space_dest_checks!(acc, idx, "Geodesic", &Geodesic, a, 1.0);
        space_dest_checks!(acc, idx, "Rhumb", &Rhumb, a, 1.0);
        space_dest_checks!(acc, idx, "HaversineMeasure(r=1000)", &small, a, 1000.0 / 6371008.8);
    });
    run.finish()
}

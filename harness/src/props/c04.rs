//! C04 Boolean operations compute the set-theoretic result.
use crate::build::*;
use crate::engine::*;
use crate::enumr::*;
use crate::exact::*;
use geo::{unary_union, Area, BooleanOps, Coord, LineString, MultiLineString, MultiPolygon, Polygon};
use serde_json::json;

const DELTA2: f64 = 1e-12; // (1e-6)^2

fn ring_inside_f(r: &LineString<f64>, x: f64, y: f64) -> bool {
    // even-odd crossing
    let mut c = false;
    for w in r.0.windows(2) {
        let (a, b) = (w[0], w[1]);
        if (a.y > y) != (b.y > y) {
            let t = (y - a.y) / (b.y - a.y);
            if x < a.x + t * (b.x - a.x) {
                c = !c;
            }
        }
    }
    c
}
fn mp_inside_f(mp: &MultiPolygon<f64>, x: f64, y: f64) -> bool {
    mp.0.iter().any(|p| ring_inside_f(p.exterior(), x, y) && !p.interiors().iter().any(|h| ring_inside_f(h, x, y)))
}
fn d2_pt_seg(px: f64, py: f64, a: (f64, f64), b: (f64, f64)) -> f64 {
    let (dx, dy) = (b.0 - a.0, b.1 - a.1);
    let dd = dx * dx + dy * dy;
    let t = if dd == 0.0 { 0.0 } else { (((px - a.0) * dx + (py - a.1) * dy) / dd).clamp(0.0, 1.0) };
    let (cx, cy) = (a.0 + t * dx, a.1 + t * dy);
    (px - cx).powi(2) + (py - cy).powi(2)
}
fn ring_signed_area(r: &LineString<f64>) -> f64 {
    r.0.windows(2).map(|w| w[0].x * w[1].y - w[1].x * w[0].y).sum::<f64>() / 2.0
}

#[derive(Clone)]
pub struct Operand {
    ag: AG, // AG::Polys (possibly empty)
    g: MultiPolygon<f64>,
    tag: &'static str,
}
fn operand(ps: Vec<Poly>, tag: &'static str) -> Operand {
    Operand { g: MultiPolygon(ps.iter().map(poly).collect()), ag: AG::Polys(ps), tag }
}
/// the same point set written differently: reversed windings, rotated, with repeated vertices
fn rewritten(o: &Operand, how: usize) -> MultiPolygon<f64> {
    let ps = match &o.ag {
        AG::Polys(p) => p,
        _ => unreachable!(),
    };
    let ring = |r: &Vec<IP>, k: usize| -> LineString<f64> {
        let mut v = r.clone();
        match how {
            0 => v.reverse(),
            1 => v = rotate_ring(&v, 1 + k),
            2 => {
                // repeated interior vertex
                let x = v[v.len() / 2];
                v.insert(v.len() / 2, x);
            }
            _ => {}
        }
        let mut c: Vec<Coord<f64>> = v.iter().map(|&p| c(p)).collect();
        c.push(c[0]);
        if how == 3 {
            // repeated closing vertex
            c.push(c[0]);
        }
        LineString::new(c)
    };
    MultiPolygon(ps.iter().map(|p| Polygon::new(ring(&p.shell, 0), p.holes.iter().enumerate().map(|(i, h)| ring(h, i)).collect())).collect())
}

fn check_result(acc: &mut Acc, idx: usize, a: &Operand, b: &Operand, ga: &MultiPolygon<f64>, gb: &MultiPolygon<f64>, variant: &str) {
    let mut segs = a.ag.segs();
    segs.extend(b.ag.segs());
    let arr = arrangement(&segs, &[]);
    let fsegs: Vec<((f64, f64), (f64, f64))> = segs.iter().map(|&(s, e)| ((s.0 as f64, s.1 as f64), (e.0 as f64, e.1 as f64))).collect();
    // witnesses: (x, y, inA, inB)
    let mut wit: Vec<(f64, f64, bool, bool)> = vec![];
    for q in &arr.faces {
        let near = segs.iter().any(|&(s, e)| d2_hp_seg(q, s, e).f() < DELTA2);
        if near {
            acc.count("face witnesses skipped (closer than delta to an input segment)", 1);
            continue;
        }
        wit.push((q.fx(), q.fy(), locate(&a.ag, q) == I, locate(&b.ag, q) == I));
    }
    let m = mstr(&de9im(&a.ag, &b.ag));
    let mut areas = [0.0f64; 4];
    for (oi, (name, f)) in [("intersection", (|x: bool, y: bool| x && y) as fn(bool, bool) -> bool), ("union", |x, y| x || y), ("difference", |x, y| x && !y), ("xor", |x, y| x != y)].iter().enumerate() {
        acc.evals += 1;
        let res = guard(|| match oi {
            0 => ga.intersection(gb),
            1 => ga.union(gb),
            2 => ga.difference(gb),
            _ => ga.xor(gb),
        });
        let res = match res {
            Ok(r) => r,
            Err(e) => {
                acc.viol(format!("{} panic {}", name, variant), idx, || json!({"a": format!("{:?}", ga), "b": format!("{:?}", gb), "panic": e}));
                continue;
            }
        };
        let nsh = res.0.len();
        let nho: usize = res.0.iter().map(|p| p.interiors().len()).sum();
        acc.class(format!("{} {} shells{} holes{}", name, m, nsh.min(3), nho.min(2)));
        let w = || json!({"op": name, "a": format!("{:?}", ga), "b": format!("{:?}", gb), "de9im": m, "result": format!("{:?}", res), "variant": variant});
        // point-set agreement on every face witness
        for &(x, y, ia, ib) in &wit {
            if mp_inside_f(&res, x, y) != f(ia, ib) {
                acc.viol(format!("{} wrong point set ({} {}x{})", name, variant, a.tag, b.tag), idx, || {
                    let mut j = w();
                    j["witness_point"] = json!([x, y]);
                    j["inside_a"] = json!(ia);
                    j["inside_b"] = json!(ib);
                    j
                });
                break;
            }
        }
        // no boundary other than input boundary; winding; closure
        'rings: for p in &res.0 {
            for (ri, r) in std::iter::once(p.exterior()).chain(p.interiors().iter()).enumerate() {
                if !r.is_closed() || r.0.len() < 4 {
                    acc.viol(format!("{} result ring not closed / fewer than 4 coordinates ({})", name, variant), idx, w);
                    break 'rings;
                }
                let sa = ring_signed_area(r);
                if (ri == 0 && !(sa > 0.0)) || (ri > 0 && !(sa < 0.0)) {
                    acc.viol(format!("{} result {} has the wrong winding ({})", name, if ri == 0 { "exterior" } else { "hole" }, variant), idx, w);
                    break 'rings;
                }
                for v in &r.0 {
                    let d = fsegs.iter().map(|&(s, e)| d2_pt_seg(v.x, v.y, s, e)).fold(f64::INFINITY, f64::min);
                    if d > DELTA2 {
                        acc.viol(format!("{} result vertex not on the input boundaries ({})", name, variant), idx, w);
                        break 'rings;
                    }
                }
            }
        }
        areas[oi] = res.unsigned_area();
    }
    // area identities
    let (aa, ab) = (ga.unsigned_area(), gb.unsigned_area());
    let tol = 1e-6;
    let bad = (areas[0] + areas[1] - aa - ab).abs() > tol || (areas[2] - (aa - areas[0])).abs() > tol || (areas[3] - (areas[1] - areas[0])).abs() > tol;
    acc.maxf("area identity residual", (areas[0] + areas[1] - aa - ab).abs().max((areas[2] - (aa - areas[0])).abs()).max((areas[3] - (areas[1] - areas[0])).abs()));
    if bad {
        acc.viol(format!("area identities violated ({})", variant), idx, || json!({"a": format!("{:?}", ga), "b": format!("{:?}", gb), "areas [int,union,diff,xor]": areas, "area_a": aa, "area_b": ab}));
    }
    acc.sample(idx, || json!({"a": format!("{:?}", ga), "b": format!("{:?}", gb), "de9im": m, "areas [int,union,diff,xor]": areas, "face_witnesses": wit.len()}));
}

pub fn operands(quick: bool) -> Vec<Operand> {
    let mut v: Vec<Operand> = vec![operand(vec![], "EMPTY")];
    let rs = rings(3, if quick { 5 } else { 8 });
    for r in &rs {
        v.push(operand(vec![Poly { shell: r.clone(), holes: vec![] }], "PG"));
    }
    // polygons with holes on the 4x4 window
    let shells: Vec<Vec<IP>> = vec![vec![(0, 0), (3, 0), (3, 3), (0, 3)], vec![(0, 0), (3, 0), (0, 3)], vec![(0, 0), (3, 1), (2, 3), (0, 2)]];
    let holes = rings_over(&grid(4), 3);
    for p in polys_with_hole(&shells, &holes).into_iter().step_by(if quick { 4 } else { 1 }) {
        v.push(operand(vec![p], "PGH"));
    }
    // multipolygons of two compatible members
    let small: Vec<&Vec<IP>> = rs.iter().filter(|r| r.len() <= 4).collect();
    let mut cnt = 0;
    for i in 0..small.len() {
        for j in i + 1..small.len() {
            let (p, q) = (Poly { shell: small[i].clone(), holes: vec![] }, Poly { shell: small[j].clone(), holes: vec![] });
            if polys_compatible(&p, &q) {
                cnt += 1;
                if cnt % (if quick { 60 } else { 6 }) == 0 {
                    v.push(operand(vec![p, q], "MPG"));
                }
            }
        }
    }
    v
}

pub fn run(mut run: Run) -> i32 {
    let quick = run.ctx.quick();
    run.rule = "every ordered pair of operands from {empty, every simple lattice polygon (G3), polygons with a hole (incl. touching), two-member multipolygons} x {intersection, union, difference, xor}: \
        on every face witness of the exact arrangement of both boundaries (farther than 1e-6 from every input segment) inside(result) == op(inside A, inside B); result vertices on input boundaries; exteriors CCW, holes CW, rings closed; \
        area identities; rewritten operands (reversed windings, rotated rings, repeated vertex, repeated closing vertex); unary_union vs fold of unions; clip of every lattice line string incl. along the boundary; distinct = (op, DE-9IM of operands, result shape)"
        .into();
    run.assumptions = vec![
        "inside(result, q) is evaluated in f64 at witnesses at least 1e-6 away from all input boundaries".into(),
        "operands are valid (Multi)Polygons; EvenOdd fill is what geo documents".into(),
    ];
    let ops = operands(quick);
    let n = ops.len();
    run.extra.insert("operands".into(), json!(n));
    run.stage("pairs", n * n, |idx, acc| {
        let (a, b) = (&ops[idx / n], &ops[idx % n]);
        check_result(acc, idx, a, b, &a.g, &b.g, "as-written");
    });
    // rewritten operands on a sub-grid of pairs
    let step = if quick { 7 } else { 3 };
    let sub: Vec<&Operand> = ops.iter().step_by(step).collect();
    let ns = sub.len();
    run.stage("rewritten-operands", ns * ns * 4, |idx, acc| {
        let how = idx % 4;
        let (a, b) = (sub[(idx / 4) / ns], sub[(idx / 4) % ns]);
        let names = ["reversed-windings", "rotated-rings", "repeated-vertex", "repeated-closing-vertex"];
        let (ga, gb) = (rewritten(a, how), if how == 3 { b.g.clone() } else { rewritten(b, how) });
        check_result(acc, idx, a, b, &ga, &gb, names[how]);
    });
    // images of the operands under integer affine maps (oblique edges, crossing points that are not representable); the exact arrangement oracle is
    // recomputed on the image. Only the moderate maps: the extreme ones make slivers thinner than the overlay's fixed-point grid resolves.
    {
        let step2 = if quick { 3 } else { 1 };
        let sub2: Vec<&Operand> = ops.iter().step_by(step2).collect();
        let n2 = sub2.len();
        for f in imaps().iter().take(3) {
            let img: Vec<Operand> = sub2
                .iter()
                .map(|o| match map_ag(&o.ag, f) {
                    AG::Polys(ps) => operand(ps, o.tag),
                    _ => unreachable!(),
                })
                .collect();
            run.stage(&format!("pairs-affine-image {}", f.name), n2 * n2, |idx, acc| {
                let (a, b) = (&img[idx / n2], &img[idx % n2]);
                check_result(acc, idx, a, b, &a.g, &b.g, "affine-image");
            });
        }
    }
    // operands far from the origin / at another scale: the same point sets mapped by an exact similarity (integer offset, power-of-two scale);
    // the result must be the image of the lattice result: same areas (scaled) and the same per-face membership
    {
        use geo::MapCoords;
        // the last two put the whole configuration at the 1e-9 / 1e-6 scale (areas ~1e-18 / 1e-13): nothing in the operation may depend on an absolute size
        let maps: [(f64, f64, f64); 5] = [(1000000.0, -1000000.0, 1.0), (0.0, 0.0, 1.0 / 1024.0), (-123456.0, 7.0, 64.0), (0.0, 0.0, 1.0 / 1073741824.0), (3.0, -5.0, 1.0 / 4194304.0)];
        run.stage("similar-operands", ns * ns * maps.len(), |idx, acc| {
            let (dx, dy, sc) = maps[idx % maps.len()];
            let (a, b) = (sub[(idx / maps.len()) / ns], sub[(idx / maps.len()) % ns]);
            let f = |c: Coord<f64>| Coord { x: (c.x + dx) * sc, y: (c.y + dy) * sc };
            let (ga, gb) = (a.g.map_coords(f), b.g.map_coords(f));
            let mut segs = a.ag.segs();
            segs.extend(b.ag.segs());
            let arr = arrangement(&segs, &[]);
            acc.class(format!("similar map{} {}x{}", idx % maps.len(), a.tag, b.tag));
            for (oi, name) in ["intersection", "union", "difference", "xor"].iter().enumerate() {
                acc.evals += 1;
                let (r0, r1) = match guard(|| match oi {
                    0 => (a.g.intersection(&b.g), ga.intersection(&gb)),
                    1 => (a.g.union(&b.g), ga.union(&gb)),
                    2 => (a.g.difference(&b.g), ga.difference(&gb)),
                    _ => (a.g.xor(&b.g), ga.xor(&gb)),
                }) {
                    Ok(x) => x,
                    Err(e) => {
                        acc.viol(format!("{} panic on translated/scaled operands", name), idx, || json!({"a": format!("{:?}", ga), "b": format!("{:?}", gb), "panic": e}));
                        continue;
                    }
                };
                let (a0, a1) = (r0.unsigned_area(), r1.unsigned_area());
                if (a1 - a0 * sc * sc).abs() > 1e-6 * sc * sc * (1.0 + a0) {
                    acc.viol(format!("{} area is not the scaled area after an exact similarity map of the operands", name), idx, || json!({"a": format!("{:?}", ga), "b": format!("{:?}", gb), "area": a1, "expected": a0 * sc * sc}));
                    continue;
                }
                for q in &arr.faces {
                    let want = match oi {
                        0 => locate(&a.ag, q) == I && locate(&b.ag, q) == I,
                        1 => locate(&a.ag, q) == I || locate(&b.ag, q) == I,
                        2 => locate(&a.ag, q) == I && locate(&b.ag, q) != I,
                        _ => (locate(&a.ag, q) == I) != (locate(&b.ag, q) == I),
                    };
                    let (x, y) = ((q.fx() + dx) * sc, (q.fy() + dy) * sc);
                    if mp_inside_f(&r1, x, y) != want {
                        acc.viol(format!("{} wrong point set on translated/scaled operands", name), idx, || json!({"a": format!("{:?}", ga), "b": format!("{:?}", gb), "result": format!("{:?}", r1), "witness_point": [x, y]}));
                        break;
                    }
                }
            }
        });
    }
    // Polygon (not Multi) operands and boolean_op
    run.stage("polygon-operands", ns * ns, |idx, acc| {
        let (a, b) = (sub[idx / ns], sub[idx % ns]);
        if a.g.0.len() != 1 || b.g.0.len() != 1 {
            return;
        }
        let (pa, pb) = (&a.g.0[0], &b.g.0[0]);
        acc.evals += 4;
        let same = guard(|| {
            pa.intersection(pb) == a.g.intersection(&b.g)
                && pa.union(&b.g) == a.g.union(&b.g)
                && pa.boolean_op(pb, geo::OpType::Difference) == a.g.difference(&b.g)
                && a.g.boolean_op(pb, geo::OpType::Xor) == a.g.xor(&b.g)
        });
        acc.class(format!("polygon-operands {}x{}", a.tag, b.tag));
        if same != Ok(true) {
            acc.viol("Polygon operands / boolean_op give a different result than MultiPolygon operands".into(), idx, || json!({"a": format!("{:?}", pa), "b": format!("{:?}", pb), "result": format!("{:?}", same)}));
        }
    });
    // unary_union vs fold, consistently wound collections of <= 3 members (both windings)
    let members: Vec<&Operand> = ops.iter().filter(|o| o.tag == "PG" || o.tag == "PGH").step_by(if quick { 5 } else { 2 }).collect();
    let nm = members.len();
    let triples = if quick { nm * nm } else { nm * nm * 4 };
    run.stage("unary-union", triples * 4, |idx, acc| {
        let cw = idx % 2 == 1;
        // every ring written from its lexicographically least vertex, with the closing coordinate repeated
        let dup_close = (idx / 2) % 2 == 1;
        let t = idx / 4;
        let (i, j, k) = (t % nm, (t / nm) % nm, (t / (nm * nm)) * 3 + (t % 7));
        let mut sel = vec![members[i], members[j]];
        if k % nm != i {
            sel.push(members[k % nm]);
        }
        let polys: Vec<Polygon<f64>> = sel
            .iter()
            .flat_map(|o| match &o.ag {
                AG::Polys(ps) => ps.clone(),
                _ => vec![],
            })
            .map(|p| {
                // consistently wound: every exterior CCW (or CW), holes opposite
                let orient_ring = |r: &Vec<IP>, ccw: bool| if (area2(r) > 0) == ccw { r.clone() } else { reverse_ring(r) };
                let write = |r: Vec<IP>| -> LineString<f64> {
                    if !dup_close {
                        return ring_ls(&r);
                    }
                    let least = (0..r.len()).min_by_key(|&i| r[i]).unwrap();
                    let mut l = ring_ls(&rotate_ring(&r, least));
                    let first = l.0[0];
                    l.0.push(first);
                    l
                };
                Polygon::new(write(orient_ring(&p.shell, !cw)), p.holes.iter().map(|h| write(orient_ring(h, cw))).collect())
            })
            .collect();
        // empty members (an empty polygon first, in the middle, or last) must not change the result
        let mut polys = polys;
        let empty = Polygon::<f64>::new(LineString::new(vec![]), vec![]);
        match t % 4 {
            1 => polys.insert(0, empty),
            2 => polys.insert(1, empty),
            3 => polys.push(empty),
            _ => {}
        }
        acc.evals += 3;
        // the same members handed over as one-member MultiPolygons (the other implementor of the operand trait)
        let as_multi: Vec<MultiPolygon<f64>> = polys.iter().map(|p| MultiPolygon(vec![p.clone()])).collect();
        let r = guard(|| {
            let uu = unary_union(&polys);
            let mut fold = MultiPolygon::<f64>(vec![]);
            for p in &polys {
                fold = fold.union(p);
            }
            (uu, fold, unary_union(&as_multi))
        });
        let (uu, fold, uu_multi) = match r {
            Ok(x) => x,
            Err(e) => {
                acc.viol("unary_union panic".into(), idx, || json!({"members": format!("{:?}", polys), "panic": e}));
                return;
            }
        };
        // the same collection far from the origin (f64 translated by (2^30, 2^30); f32 by (500000, 4500000): every coordinate still exact): same area
        if t % 3 == 0 {
            let a0 = uu.unsigned_area();
            let far64: Vec<Polygon<f64>> = polys.iter().map(|p| { use geo::MapCoords; p.map_coords(|c| Coord { x: c.x + 1073741824.0, y: c.y + 1073741824.0 }) }).collect();
            let far32: Vec<Polygon<f32>> = polys.iter().map(|p| { use geo::MapCoords; p.map_coords(|c| Coord { x: c.x as f32 + 500000.0, y: c.y as f32 + 4500000.0 }) }).collect();
            acc.evals += 2;
            match guard(|| (unary_union(&far64).unsigned_area(), unary_union(&far32).unsigned_area() as f64)) {
                Err(e) => acc.viol("unary_union panic far from the origin".into(), idx, || json!({"members": format!("{:?}", polys), "panic": e})),
                Ok((a64, a32)) => {
                    if (a64 - a0).abs() > 1e-4 * (1.0 + a0) || (a32 - a0).abs() > 0.26 * (1.0 + a0) {
                        acc.viol(format!("unary_union far from the origin covers a different area ({} winding)", if cw { "cw" } else { "ccw" }), idx, || json!({"members": format!("{:?}", polys), "area_at_origin": a0, "area_f64_at_2^30": a64, "area_f32_at_(500000,4500000)": a32}));
                    }
                }
            }
        }
        let mut segs = vec![];
        for o in &sel {
            segs.extend(o.ag.segs());
        }
        let arr = arrangement(&segs, &[]);
        acc.class(format!("unary n{} cw{} dupclose{} shells{} empty-member-pos{}", polys.len(), cw, dup_close, uu.0.len().min(3), t % 4));
        acc.sample(idx, || json!({"members": format!("{:?}", polys), "unary_union": format!("{:?}", uu)}));
        for q in &arr.faces {
            if segs.iter().any(|&(s, e)| d2_hp_seg(q, s, e).f() < DELTA2) {
                continue;
            }
            let want = sel.iter().any(|o| locate(&o.ag, q) == I);
            let (x, y) = (q.fx(), q.fy());
            let (gu, gf) = (mp_inside_f(&uu, x, y), mp_inside_f(&fold, x, y));
            if mp_inside_f(&uu_multi, x, y) != want {
                acc.viol(format!("unary_union of one-member MultiPolygons disagrees with the member union ({} winding)", if cw { "cw" } else { "ccw" }), idx, || {
                    json!({"members": format!("{:?}", polys), "unary_union(multipolygons)": format!("{:?}", uu_multi), "unary_union(polygons)": format!("{:?}", uu), "witness_point": [x, y], "expected_inside": want})
                });
                break;
            }
            if gu != want || gf != want {
                acc.viol(format!("unary_union / fold of unions disagree with the member union ({} winding): unary={} fold={} expected={}", if cw { "cw" } else { "ccw" }, gu, gf, want), idx, || {
                    json!({"members": format!("{:?}", polys), "unary_union": format!("{:?}", uu), "fold": format!("{:?}", fold), "witness_point": [x, y]})
                });
                break;
            }
        }
    });
    // unary_union of one ill-conditioned ring: the least vertex is the tip of a needle (Shewchuk's (0.5,0.5)-(12,12)-(24,24) configuration), so the fill rule
    // chosen from the ring's winding depends on a robust orientation test; either winding, alone and followed by an ordinary square
    {
        use crate::bigf::next_up;
        let w: i64 = if quick { 24 } else { 96 };
        run.stage("unary-union-needle-ring", (w * w * 2) as usize, |idx, acc| {
            let cw = idx % 2 == 1;
            let k = (idx / 2) as i64;
            let (i, j) = (k / w - w / 2, k % w - w / 2);
            let tip = Coord { x: next_up(0.5, i), y: next_up(0.5, j) };
            // ring tip -> (12,12) -> (40,10) -> (24,24) -> tip: the tip's neighbours are the two far points of the (nearly) common line, so the
            // orientation at the least vertex is decided in the last bits; kept when the sliver (tip,A,B) lies on the outer side of the body (simple ring)
            let (a, b, c0) = ((12.0, 12.0), (24.0, 24.0), (40.0, 10.0));
            let s_body = crate::bigf::orient(a, c0, b);
            let s_sl = crate::bigf::orient((tip.x, tip.y), a, b);
            if s_sl == 0 || s_sl != s_body {
                acc.count("needle rings skipped (tip exactly on the line, or on the inner side: ring not simple)", 1);
                return;
            }
            let mut v = vec![tip, Coord { x: a.0, y: a.1 }, Coord { x: c0.0, y: c0.1 }, Coord { x: b.0, y: b.1 }, tip];
            let pts: Vec<(f64, f64)> = v[..4].iter().map(|c| (c.x, c.y)).collect();
            let sign = crate::bigf::ring_area_sign(&pts);
            if (sign > 0) == cw {
                v.reverse();
            }
            let pg = Polygon::new(LineString::new(v), vec![]);
            let area = pg.unsigned_area();
            // the collection must be consistently wound: the square follows the needle's winding
            let mut sqv = vec![(100.0, 100.0), (101.0, 100.0), (101.0, 101.0), (100.0, 101.0), (100.0, 100.0)];
            if cw {
                sqv.reverse();
            }
            let sq = Polygon::new(LineString::from(sqv), vec![]);
            acc.evals += 2;
            acc.class(format!("needle cw{}", cw));
            acc.sample(idx, || json!({"ring": format!("{:?}", pg), "clockwise": cw}));
            for (what, input, want) in [("alone", vec![pg.clone()], area), ("followed by a square", vec![pg.clone(), sq.clone()], area + 1.0)] {
                match guard(|| unary_union(&input)) {
                    Err(e) => acc.viol(format!("unary_union panic on an ill-conditioned ring ({})", what), idx, || json!({"members": format!("{:?}", input), "panic": e})),
                    Ok(u) => {
                        let got = u.unsigned_area();
                        if (got - want).abs() > 1e-6 * want {
                            acc.viol(format!("unary_union of an ill-conditioned (needle) ring loses or changes the region ({}, {} winding)", what, if cw { "cw" } else { "ccw" }), idx, || json!({"members": format!("{:?}", input), "area": got, "expected_area": want, "result": format!("{:?}", u)}));
                        }
                    }
                }
            }
        });
    }
    // clip
    let g3 = grid(3);
    let mut lines: Vec<Vec<IP>> = vec![];
    for &a in &g3 {
        for &b in &g3 {
            if a < b {
                lines.push(vec![a, b]);
            }
        }
    }
    lines.extend(polylines(&g3, 3));
    // simple closed loops (the closing segment is part of the line string)
    lines.extend(rings(3, 4).into_iter().step_by(if quick { 5 } else { 1 }).map(|r| close(&r)));
    if !quick {
        lines.extend(polylines(&g3, 4).into_iter().step_by(3));
    }
    // shift some lines by half the lattice: use the doubled lattice for polygons instead (all-integer)
    let clip_polys: Vec<&Operand> = ops.iter().filter(|o| o.tag != "EMPTY").step_by(if quick { 3 } else { 1 }).collect();
    let (nl, np) = (lines.len(), clip_polys.len());
    run.stage("clip", nl * np, |idx, acc| {
        let (l, o) = (&lines[idx % nl], clip_polys[idx / nl]);
        let mls = MultiLineString(vec![ls(l)]);
        acc.evals += 2;
        let r = guard(|| (o.g.clip(&mls, false), o.g.clip(&mls, true)));
        let (inside, outside) = match r {
            Ok(x) => x,
            Err(e) => {
                acc.viol("clip panic".into(), idx, || json!({"polygon": format!("{:?}", o.g), "line": format!("{:?}", mls), "panic": e}));
                return;
            }
        };
        let lag = AG::Lines(vec![l.clone()]);
        let mut segs = lag.segs();
        let nls = segs.len();
        segs.extend(o.ag.segs());
        let arr = arrangement(&segs, &[]);
        let _ = nls;
        let dist_to = |m: &MultiLineString<f64>, x: f64, y: f64| -> f64 {
            m.0.iter().flat_map(|s| s.0.windows(2)).map(|w| d2_pt_seg(x, y, (w[0].x, w[0].y), (w[1].x, w[1].y))).fold(f64::INFINITY, f64::min)
        };
        let w = || json!({"polygon": format!("{:?}", o.g), "line": format!("{:?}", mls), "clip(false)": format!("{:?}", inside), "clip(true)": format!("{:?}", outside)});
        let mut n_in = 0;
        let mut n_bd = 0;
        for m in &arr.mids {
            if locate(&lag, m) == E {
                continue; // midpoint of a polygon-only sub-edge
            }
            let (x, y) = (m.fx(), m.fy());
            let loc = locate(&o.ag, m);
            let (di, dout) = (dist_to(&inside, x, y), dist_to(&outside, x, y));
            let want_in = loc != E;
            if loc == B {
                n_bd += 1;
            } else if loc == I {
                n_in += 1;
            }
            if (di <= DELTA2) != want_in || (dout <= DELTA2) == want_in {
                acc.viol(format!("clip keeps the wrong parts (sub-edge {} the polygon)", ["inside", "on the boundary of", "outside"][loc]), idx, || {
                    let mut j = w();
                    j["sub_edge_midpoint"] = json!([x, y]);
                    j
                });
                break;
            }
        }
        acc.class(format!("clip {} parts-in{} parts-boundary{}", o.tag, n_in.min(3), n_bd.min(2)));
        let len = |m: &MultiLineString<f64>| -> f64 { m.0.iter().flat_map(|s| s.0.windows(2)).map(|w| ((w[0].x - w[1].x).powi(2) + (w[0].y - w[1].y).powi(2)).sqrt()).sum() };
        let total: f64 = l.windows(2).map(|w| (((w[0].0 - w[1].0).pow(2) + (w[0].1 - w[1].1).pow(2)) as f64).sqrt()).sum();
        acc.maxf("clip length residual", (len(&inside) + len(&outside) - total).abs());
        if (len(&inside) + len(&outside) - total).abs() > 1e-6 {
            acc.viol("clip does not conserve the total length".into(), idx, w);
        }
        acc.sample(idx, || w());
    });
    // clip against EMPTY clipping geometries (nothing is inside nothing): clip(false) is empty, clip(true) returns the whole line
    {
        let empties: Vec<(&str, MultiPolygon<f64>)> = vec![
            ("MultiPolygon with no members", MultiPolygon(vec![])),
            ("MultiPolygon of one empty polygon", MultiPolygon(vec![Polygon::new(LineString::new(vec![]), vec![])])),
            ("MultiPolygon of two empty polygons", MultiPolygon(vec![Polygon::new(LineString::new(vec![]), vec![]), Polygon::new(LineString::new(vec![]), vec![])])),
        ];
        let nl2 = lines.len();
        run.stage("clip-empty-operands", nl2 * empties.len(), |idx, acc| {
            let (l, (name, mp)) = (&lines[idx % nl2], &empties[idx / nl2]);
            let mls = MultiLineString(vec![ls(l)]);
            let total: f64 = l.windows(2).map(|w| (((w[0].0 - w[1].0).pow(2) + (w[0].1 - w[1].1).pow(2)) as f64).sqrt()).sum();
            let len = |m: &MultiLineString<f64>| -> f64 { m.0.iter().flat_map(|s| s.0.windows(2)).map(|w| ((w[0].x - w[1].x).powi(2) + (w[0].y - w[1].y).powi(2)).sqrt()).sum() };
            acc.evals += 4;
            acc.class(format!("clip empty operand: {}", name));
            let poly_form = Polygon::new(LineString::new(vec![]), vec![]);
            match guard(|| (mp.clip(&mls, false), mp.clip(&mls, true), poly_form.clip(&mls, false), poly_form.clip(&mls, true))) {
                Err(e) => acc.viol("clip panic with an empty clipping geometry".into(), idx, || json!({"line": format!("{:?}", mls), "operand": name, "panic": e})),
                Ok((i, o, pi, po)) => {
                    if len(&i) != 0.0 || (len(&o) - total).abs() > 1e-9 || len(&pi) != 0.0 || (len(&po) - total).abs() > 1e-9 {
                        acc.viol("clip against an empty clipping geometry: clip(false) must be empty and clip(true) the whole line".into(), idx, || json!({"line": format!("{:?}", mls), "operand": name, "clip(false)": format!("{:?}", i), "clip(true)": format!("{:?}", o), "empty Polygon clip(false)": format!("{:?}", pi), "empty Polygon clip(true)": format!("{:?}", po)}));
                    }
                }
            }
        });
    }
    // long line strings (thousands of coordinates): a comb of unit-spaced vertical teeth of height 2 joined alternately at the top and the bottom, clipped by a
    // horizontal band that cuts every tooth (inside length = number of teeth, everything else outside) and by a box holding the whole comb
    {
        let sizes: Vec<usize> = if quick { vec![50, 1000, 4096, 4097, 5001, 9000] } else { vec![50, 1000, 2048, 2049, 4095, 4096, 4097, 4098, 5001, 8192, 8193, 9000, 16385, 40000, 70001] };
        run.stage("clip-long-lines", sizes.len() * 4, |idx, acc| {
            let (n, lead_in, whole) = (sizes[idx / 4], idx % 2 == 1, (idx / 2) % 2 == 1);
            let mut cs: Vec<(f64, f64)> = vec![];
            if lead_in {
                cs.push((-0.5, 0.0));
            }
            let mut k = 0usize;
            while cs.len() < n {
                let x = (k / 2) as f64;
                let up = (k / 2) % 2 == 0;
                cs.push((x, if (k % 2 == 0) == up { 0.0 } else { 2.0 }));
                k += 1;
            }
            let line = LineString::from(cs.clone());
            let total: f64 = cs.windows(2).map(|w| ((w[0].0 - w[1].0).powi(2) + (w[0].1 - w[1].1).powi(2)).sqrt()).sum();
            let teeth = cs.windows(2).filter(|w| w[0].0 == w[1].0).count() as f64;
            let xmax = cs.last().unwrap().0 + 1.0;
            let (y0, y1) = if whole { (-1.0, 3.0) } else { (0.5, 1.5) };
            let band = Polygon::new(LineString::from(vec![(-1.0, y0), (xmax, y0), (xmax, y1), (-1.0, y1), (-1.0, y0)]), vec![]);
            let want_in = if whole { total } else { teeth };
            let mls = MultiLineString(vec![line]);
            let len = |m: &MultiLineString<f64>| -> f64 { m.0.iter().flat_map(|s| s.0.windows(2)).map(|w| ((w[0].x - w[1].x).powi(2) + (w[0].y - w[1].y).powi(2)).sqrt()).sum() };
            acc.evals += 2;
            acc.class(format!("clip long line whole{} lead-in{}", whole, lead_in));
            match guard(|| (band.clip(&mls, false), band.clip(&mls, true))) {
                Err(e) => acc.viol("clip panic on a long line string".into(), idx, || json!({"coordinates": n, "panic": e})),
                Ok((i, o)) => {
                    let (li, lo) = (len(&i), len(&o));
                    acc.maxf("clip long line length residual", (li - want_in).abs().max((lo - (total - want_in)).abs()));
                    if (li - want_in).abs() > 1e-6 * total || (lo - (total - want_in)).abs() > 1e-6 * total {
                        acc.viol("clip of a long comb line: inside / outside lengths differ from the exact ones".into(), idx, || {
                            json!({"coordinates": n, "lead_in": lead_in, "clipping_band_y": [y0, y1], "inside_length": li, "expected_inside": want_in, "outside_length": lo, "expected_outside": total - want_in})
                        });
                    }
                }
            }
        });
    }
    run.finish()
}

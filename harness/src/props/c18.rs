//! C18 Structural invariants of the geometry types survive every API history.
//! Explicit-state search (stateright) whose states ARE the real geo-types values and whose
//! transitions ARE calls of the real public methods; a boring Vec-based reference model is stepped alongside.
use crate::engine::*;
use geo::{Coord, LineString, MapCoordsInPlace, Polygon, Rect};
use serde_json::json;
use stateright::{Checker, Model, Property};
use std::sync::atomic::{AtomicU64, Ordering};
use std::sync::Arc;

type C = (i32, i32);
const ALPHA: [C; 3] = [(0, 0), (1, 0), (0, 1)];
fn co(c: C) -> Coord<i32> {
    Coord { x: c.0, y: c.1 }
}
fn lsr(v: &[C]) -> LineString<i32> {
    LineString::new(v.iter().map(|&c| co(c)).collect())
}

/// closures handed to the *_mut methods
#[derive(Clone, Copy, Debug, PartialEq, Eq, Hash)]
pub enum K {
    Push(u8),
    Pop,
    Clear,
    SetFirst(u8),
    SetLast(u8),
    SwapEnds,
    Replace(u8), // one of REPL
    Nop,
}
const REPL: [&[C]; 3] = [&[(1, 0)], &[(0, 0), (1, 0)], &[(0, 1), (1, 0), (0, 0)]];
fn all_k() -> Vec<K> {
    let mut v = vec![K::Pop, K::Clear, K::SwapEnds, K::Nop];
    for c in 0..3u8 {
        v.push(K::Push(c));
        v.push(K::SetFirst(c));
        v.push(K::SetLast(c));
        v.push(K::Replace(c));
    }
    v
}
fn apply_real(k: K, l: &mut LineString<i32>) {
    match k {
        K::Push(c) => l.0.push(co(ALPHA[c as usize])),
        K::Pop => {
            l.0.pop();
        }
        K::Clear => l.0.clear(),
        K::SetFirst(c) => {
            if let Some(f) = l.0.first_mut() {
                *f = co(ALPHA[c as usize]);
            }
        }
        K::SetLast(c) => {
            if let Some(f) = l.0.last_mut() {
                *f = co(ALPHA[c as usize]);
            }
        }
        K::SwapEnds => {
            let n = l.0.len();
            if n > 1 {
                l.0.swap(0, n - 1);
            }
        }
        K::Replace(r) => *l = lsr(REPL[r as usize]),
        K::Nop => {}
    }
}
fn apply_ref(k: K, l: &mut Vec<C>) {
    match k {
        K::Push(c) => l.push(ALPHA[c as usize]),
        K::Pop => {
            l.pop();
        }
        K::Clear => l.clear(),
        K::SetFirst(c) => {
            if let Some(f) = l.first_mut() {
                *f = ALPHA[c as usize];
            }
        }
        K::SetLast(c) => {
            if let Some(f) = l.last_mut() {
                *f = ALPHA[c as usize];
            }
        }
        K::SwapEnds => {
            let n = l.len();
            if n > 1 {
                l.swap(0, n - 1);
            }
        }
        K::Replace(r) => *l = REPL[r as usize].to_vec(),
        K::Nop => {}
    }
}
fn close_ref(l: &mut Vec<C>) {
    if !l.is_empty() && l.first() != l.last() {
        let f = l[0];
        l.push(f);
    }
}

#[derive(Clone, Copy, Debug, PartialEq, Eq, Hash)]
pub enum Act {
    ExteriorMut(K),
    TryExteriorMut(K, bool),
    InteriorsMut(u8, K),
    TryInteriorsMut(u8, K, bool),
    InteriorsSwap,
    TryInteriorsBothThenErr(K), // mutate ring 0 and ring 1, then return Err
    InteriorsPush(u8),
    MapInPlace(u8),
    TryMapInPlace(u8, u8), // function, failing position
}
fn mapf(f: u8, c: Coord<i32>) -> Coord<i32> {
    match f {
        0 => Coord { x: c.y, y: c.x },
        1 => Coord { x: 1, y: 0 },
        _ => Coord { x: c.x + c.y, y: c.y },
    }
}
fn mapf_ref(f: u8, c: C) -> C {
    let r = mapf(f, co(c));
    (r.x, r.y)
}

#[derive(Clone, Debug, PartialEq, Eq, Hash)]
pub struct St {
    poly: Polygon<i32>,
    rext: Vec<C>,
    rints: Vec<Vec<C>>,
    depth: u8,
    last: Option<Act>,
}

pub struct PolyModel {
    max_len: usize,
    max_depth: u8,
    transitions: Arc<AtomicU64>,
    /// keep every init_stride-th initial state (1 = all 160)
    init_stride: usize,
}

impl Model for PolyModel {
    type State = St;
    type Action = Act;
    fn init_states(&self) -> Vec<St> {
        // Polygon::new for every exterior sequence of length <= 3 over the alphabet x a few interior sets
        let mut seqs: Vec<Vec<C>> = vec![vec![]];
        for len in 1..=3 {
            let mut idx = vec![0usize; len];
            loop {
                seqs.push(idx.iter().map(|&i| ALPHA[i]).collect());
                let mut p = len;
                loop {
                    if p == 0 {
                        break;
                    }
                    p -= 1;
                    idx[p] += 1;
                    if idx[p] < 3 {
                        break;
                    }
                    idx[p] = 0;
                    if p == 0 {
                        p = usize::MAX;
                        break;
                    }
                }
                if p == usize::MAX {
                    break;
                }
            }
        }
        let int_sets: Vec<Vec<Vec<C>>> = vec![
            vec![],
            vec![vec![]],
            vec![vec![(0, 0), (1, 0)]],
            vec![vec![(0, 0), (1, 0), (0, 1)], vec![(1, 0)]],
        ];
        let mut out = vec![];
        for e in &seqs {
            for is in &int_sets {
                let poly = Polygon::new(lsr(e), is.iter().map(|i| lsr(i)).collect());
                let mut rext = e.clone();
                close_ref(&mut rext);
                let rints = is
                    .iter()
                    .map(|i| {
                        let mut v = i.clone();
                        close_ref(&mut v);
                        v
                    })
                    .collect();
                out.push(St { poly, rext, rints, depth: 0, last: None });
            }
        }
        out.into_iter().step_by(self.init_stride).collect()
    }
    fn actions(&self, s: &St, out: &mut Vec<Act>) {
        if s.depth >= self.max_depth {
            return;
        }
        for k in all_k() {
            let grows = matches!(k, K::Push(_));
            if !(grows && s.rext.len() >= self.max_len) {
                out.push(Act::ExteriorMut(k));
                out.push(Act::TryExteriorMut(k, true));
                out.push(Act::TryExteriorMut(k, false));
            }
            for i in 0..s.rints.len().min(2) as u8 {
                if grows && s.rints[i as usize].len() >= self.max_len {
                    continue;
                }
                out.push(Act::InteriorsMut(i, k));
                out.push(Act::TryInteriorsMut(i, k, true));
                out.push(Act::TryInteriorsMut(i, k, false));
            }
            if s.rints.len() >= 2 && !grows {
                out.push(Act::TryInteriorsBothThenErr(k));
            }
        }
        if s.rints.len() >= 2 {
            out.push(Act::InteriorsSwap);
        }
        if s.rints.len() < 2 {
            for r in 0..3u8 {
                out.push(Act::InteriorsPush(r));
            }
        }
        for f in 0..3u8 {
            out.push(Act::MapInPlace(f));
            let total = s.rext.len() + s.rints.iter().map(|r| r.len()).sum::<usize>();
            for j in 0..total.min(6) as u8 {
                out.push(Act::TryMapInPlace(f, j));
            }
        }
    }
    fn next_state(&self, s: &St, a: Act) -> Option<St> {
        self.transitions.fetch_add(1, Ordering::Relaxed);
        let mut n = s.clone();
        n.depth += 1;
        n.last = Some(a);
        let act_copy = a;
        match a {
            Act::ExteriorMut(k) => {
                n.poly.exterior_mut(|l| apply_real(k, l));
                apply_ref(k, &mut n.rext);
                close_ref(&mut n.rext);
            }
            Act::TryExteriorMut(k, ok) => {
                let _ = n.poly.try_exterior_mut(|l| {
                    apply_real(k, l);
                    if ok {
                        Ok(())
                    } else {
                        Err(())
                    }
                });
                apply_ref(k, &mut n.rext);
                close_ref(&mut n.rext);
            }
            Act::InteriorsMut(i, k) => {
                n.poly.interiors_mut(|rs| apply_real(k, &mut rs[i as usize]));
                apply_ref(k, &mut n.rints[i as usize]);
                close_ref(&mut n.rints[i as usize]);
            }
            Act::TryInteriorsMut(i, k, ok) => {
                let _ = n.poly.try_interiors_mut(|rs| {
                    apply_real(k, &mut rs[i as usize]);
                    if ok {
                        Ok(())
                    } else {
                        Err(())
                    }
                });
                apply_ref(k, &mut n.rints[i as usize]);
                close_ref(&mut n.rints[i as usize]);
            }
            Act::TryInteriorsBothThenErr(k) => {
                let _ = n.poly.try_interiors_mut(|rs| {
                    apply_real(k, &mut rs[0]);
                    apply_real(k, &mut rs[1]);
                    Err::<(), ()>(())
                });
                for i in 0..2 {
                    apply_ref(k, &mut n.rints[i]);
                    close_ref(&mut n.rints[i]);
                }
            }
            Act::InteriorsSwap => {
                n.poly.interiors_mut(|rs| rs.swap(0, 1));
                n.rints.swap(0, 1);
            }
            Act::InteriorsPush(r) => {
                n.poly.interiors_push(lsr(REPL[r as usize]));
                let mut v = REPL[r as usize].to_vec();
                close_ref(&mut v);
                n.rints.push(v);
            }
            Act::MapInPlace(f) => {
                n.poly.map_coords_in_place(|c| mapf(f, c));
                for c in n.rext.iter_mut() {
                    *c = mapf_ref(f, *c);
                }
                close_ref(&mut n.rext);
                for r in n.rints.iter_mut() {
                    for c in r.iter_mut() {
                        *c = mapf_ref(f, *c);
                    }
                    close_ref(r);
                }
            }
            Act::TryMapInPlace(f, j) => {
                // the closure fails at the j-th coordinate it is shown; earlier ones have been rewritten
                let seen = std::cell::Cell::new(0u8);
                let _ = n.poly.try_map_coords_in_place(|c| {
                    let k = seen.get();
                    seen.set(k + 1);
                    if k == j {
                        Err(())
                    } else {
                        Ok(mapf(f, c))
                    }
                });
                // reference: traversal order exterior then interiors; first j coordinates mapped
                let mut cnt = 0u8;
                for c in n.rext.iter_mut().chain(n.rints.iter_mut().flat_map(|r| r.iter_mut())) {
                    if cnt < j {
                        *c = mapf_ref(f, *c);
                    }
                    cnt += 1;
                }
                close_ref(&mut n.rext);
                for r in n.rints.iter_mut() {
                    close_ref(r);
                }
            }
        }
        // after a closure that returned an error the property fixes closedness only; what the rings hold (edits kept and re-closed, or rolled back) is
        // the implementation's choice: the reference continues from whatever the polygon holds now
        let errored = match &act_copy {
            Act::TryExteriorMut(_, ok) => !*ok,
            Act::TryInteriorsMut(_, _, ok) => !*ok,
            Act::TryInteriorsBothThenErr(_) | Act::TryMapInPlace(_, _) => true,
            _ => false,
        };
        if errored {
            n.rext = n.poly.exterior().0.iter().map(|c| (c.x, c.y)).collect();
            n.rints = n.poly.interiors().iter().map(|r| r.0.iter().map(|c| (c.x, c.y)).collect()).collect();
        }
        Some(n)
    }
    fn properties(&self) -> Vec<Property<Self>> {
        vec![
            Property::always("every ring closed", |_, s: &St| {
                s.poly.exterior().is_closed() && s.poly.interiors().iter().all(|r| r.is_closed())
            }),
            Property::always("matches reference model", |_, s: &St| {
                // only compared while the rings are closed; an open ring is the other property's business
                let closed = s.poly.exterior().is_closed() && s.poly.interiors().iter().all(|r| r.is_closed());
                if !closed {
                    return true;
                }
                // TryMapInPlace error path: the property only demands closedness; which prefix was rewritten is unspecified
                if matches!(s.last, Some(Act::TryMapInPlace(_, _))) {
                    return true;
                }
                let e: Vec<C> = s.poly.exterior().0.iter().map(|c| (c.x, c.y)).collect();
                let is: Vec<Vec<C>> = s.poly.interiors().iter().map(|r| r.0.iter().map(|c| (c.x, c.y)).collect()).collect();
                e == s.rext && is == s.rints
            }),
        ]
    }
}

// ---------------- Rect ----------------
const RALPHA: [C; 4] = [(0, 0), (1, 0), (0, 1), (1, 1)];
#[derive(Clone, Copy, Debug, PartialEq, Eq, Hash)]
pub enum RAct {
    New(u8, u8),
    /// the deprecated, never-failing constructor
    TryNew(u8, u8),
    SetMin(u8),
    SetMax(u8),
}
#[derive(Clone, Debug, PartialEq, Eq, Hash)]
pub struct RSt {
    rect: Rect<i32>,
    depth: u8,
    last_panicked: bool,
}
pub struct RectModel {
    max_depth: u8,
    transitions: Arc<AtomicU64>,
}
impl Model for RectModel {
    type State = RSt;
    type Action = RAct;
    fn init_states(&self) -> Vec<RSt> {
        let mut v = vec![];
        for a in RALPHA {
            for b in RALPHA {
                v.push(RSt { rect: Rect::new(co(a), co(b)), depth: 0, last_panicked: false });
            }
        }
        v
    }
    fn actions(&self, s: &RSt, out: &mut Vec<RAct>) {
        if s.depth >= self.max_depth {
            return;
        }
        for a in 0..4u8 {
            out.push(RAct::SetMin(a));
            out.push(RAct::SetMax(a));
            for b in 0..4u8 {
                out.push(RAct::New(a, b));
                out.push(RAct::TryNew(a, b));
            }
        }
    }
    fn next_state(&self, s: &RSt, a: RAct) -> Option<RSt> {
        self.transitions.fetch_add(1, Ordering::Relaxed);
        let mut n = s.clone();
        n.depth += 1;
        n.last_panicked = false;
        match a {
            RAct::New(a, b) => n.rect = Rect::new(co(RALPHA[a as usize]), co(RALPHA[b as usize])),
            #[allow(deprecated)]
            RAct::TryNew(a, b) => {
                if let Ok(r) = Rect::try_new(co(RALPHA[a as usize]), co(RALPHA[b as usize])) {
                    n.rect = r;
                }
            }
            RAct::SetMin(c) => {
                // a documented precondition failure panics; the value is still observable afterwards
                let mut r = n.rect;
                let res = std::panic::catch_unwind(std::panic::AssertUnwindSafe(|| r.set_min(co(RALPHA[c as usize]))));
                n.last_panicked = res.is_err();
                n.rect = r;
            }
            RAct::SetMax(c) => {
                let mut r = n.rect;
                let res = std::panic::catch_unwind(std::panic::AssertUnwindSafe(|| r.set_max(co(RALPHA[c as usize]))));
                n.last_panicked = res.is_err();
                n.rect = r;
            }
        }
        Some(n)
    }
    fn properties(&self) -> Vec<Property<Self>> {
        vec![Property::always("rect min <= max", |_, s: &RSt| {
            s.rect.min().x <= s.rect.max().x && s.rect.min().y <= s.rect.max().y
        })]
    }
}

pub fn run(mut run: Run) -> i32 {
    run.rule = "explicit-state BFS (stateright, 16 threads, run twice and state counts compared) over histories of the real \
        Polygon<i32> / Rect<i32> mutators; state = the real value + Vec reference model + depth; invariants evaluated in every \
        state; distinct_nontrivial = unique states; plus exhaustive conversion round trips"
        .into();
    run.assumptions = vec![
        "coordinate alphabet {(0,0),(1,0),(0,1)}, ring length <= 6, <= 2 interiors, closure alphabet in harness/src/props/c18.rs".into(),
        "a panicking set_min/set_max is a call in the history (caught); the invariant is checked on the value it leaves behind".into(),
    ];
    let depth = run.ctx.pick(2, 3) as u8;
    let mut total_states = 0u64;
    let mut total_trans = 0u64;
    let mut samples = vec![];
    if run.ctx.replay.is_none() {
        // --- polygon model: (all initial states, depth d) and (every 13th initial state, depth d+1);
        //     the second configuration is run twice and the unique-state counts compared (parallel BFS determinism)
        let configs: Vec<(usize, u8, usize)> = vec![(1, depth, 1), (13, depth + 1, 2)];
        for (stride, d, rounds) in configs {
            let mut counts = vec![];
            for round in 0..rounds {
                let tr = Arc::new(AtomicU64::new(0));
                let m = PolyModel { max_len: 6, max_depth: d, transitions: tr.clone(), init_stride: stride };
                let ck = m.checker().threads(16).spawn_bfs().join();
                counts.push(ck.unique_state_count());
                if round == 0 {
                    total_states += ck.unique_state_count() as u64;
                    total_trans += tr.load(Ordering::Relaxed);
                    for (name, path) in ck.discoveries() {
                        let acts: Vec<String> = path.clone().into_actions().iter().map(|a| format!("{:?}", a)).collect();
                        let states: Vec<St> = path.into_states();
                        let init = format!("{:?}", states[0].poly);
                        let last = states.last().unwrap();
                        let kind = acts.last().map(|s| s.split('(').next().unwrap().to_string()).unwrap_or("init".into());
                        let okflag = acts.last().map(|s| if s.contains("false") || s.contains("ThenErr") { " (closure returned Err)" } else { "" }).unwrap_or("");
                        run.acc.viol(format!("polygon: '{}' violated after {}{}", name, kind, okflag), 0, || {
                            json!({"initial": init, "actions": acts, "final_polygon": format!("{:?}", last.poly), "reference_exterior": format!("{:?}", last.rext), "reference_interiors": format!("{:?}", last.rints)})
                        });
                    }
                    samples.push(json!({"model": "Polygon<i32>", "initial_states": (160 + stride - 1) / stride, "depth": d, "unique_states": ck.unique_state_count(), "max_depth_reached": ck.max_depth(), "transitions": tr.load(Ordering::Relaxed),
                        "example_history": ["Polygon::new([(0,0),(1,0)],[])", "ExteriorMut(Push((0,1)))", "TryExteriorMut(Pop, Err)"]}));
                }
            }
            if counts.iter().any(|c| *c != counts[0]) {
                panic!("parallel BFS not deterministic: {:?}", counts);
            }
            run.extra.insert(format!("polygon_model_unique_states_stride{}_depth{}", stride, d), json!(counts));
        }
        // --- rect model ---
        let tr = Arc::new(AtomicU64::new(0));
        let m = RectModel { max_depth: depth + 1, transitions: tr.clone() };
        let ck = m.checker().threads(4).spawn_bfs().join();
        total_states += ck.unique_state_count() as u64;
        total_trans += tr.load(Ordering::Relaxed);
        for (name, path) in ck.discoveries() {
            let acts: Vec<String> = path.clone().into_actions().iter().map(|a| format!("{:?}", a)).collect();
            let states = path.into_states();
            let last = states.last().unwrap();
            let kind = acts.last().map(|s| s.split('(').next().unwrap().to_string()).unwrap_or("Rect::new".into());
            run.acc.viol(format!("rect: '{}' violated after {}{}", name, kind, if last.last_panicked { " (call panicked, caught)" } else { "" }), 0, || {
                json!({"initial": format!("{:?}", states[0].rect), "actions": acts, "final_rect": format!("{:?}", last.rect)})
            });
        }
        samples.push(json!({"model": "Rect<i32>", "depth": depth + 1, "unique_states": ck.unique_state_count()}));
        run.extra.insert("rect_model_unique_states".into(), json!(ck.unique_state_count()));
    }
    run.states = total_states;
    run.transitions = total_trans;
    run.traces = total_trans;
    run.distinct_override = Some(total_states);
    run.extra.insert("model_samples".into(), json!(samples));
    run.extra.insert("unique_states_total".into(), json!(total_states));

    // --- conversions (exhaustive over a 3x3 lattice) ---
    conversions(&mut run);
    // LineString::close on every sequence
    let seqs: Vec<Vec<C>> = (0..=4usize)
        .flat_map(|k| (0..3usize.pow(k as u32)).map(move |i| crate::enumr::nth_sequence(3, k, i).iter().map(|&j| ALPHA[j]).collect::<Vec<C>>()))
        .collect();
    run.stage("linestring-close", seqs.len(), |idx, acc| {
        let mut l = lsr(&seqs[idx]);
        acc.evals += 1;
        if seqs[idx].is_empty() {
            return; // close() on an empty LineString has a debug assertion; is_closed() is true by definition
        }
        l.close();
        let mut r = seqs[idx].clone();
        close_ref(&mut r);
        let got: Vec<C> = l.0.iter().map(|c| (c.x, c.y)).collect();
        acc.sample(idx, || json!({"input": format!("{:?}", seqs[idx]), "closed": format!("{:?}", got)}));
        if !l.is_closed() || got != r {
            acc.viol("LineString::close result not closed / not input+first".into(), idx, || json!({"input": format!("{:?}", seqs[idx]), "got": format!("{:?}", got)}));
        }
    });
    run.acc.evals += total_trans;
    run.finish()
}

fn conversions(run: &mut Run) {
    use geo::{Geometry, Line, Triangle};
    use std::convert::TryFrom;
    let g: Vec<(f64, f64)> = (0..3).flat_map(|x| (0..3).map(move |y| (x as f64, y as f64))).collect();
    let n = g.len();
    // Rect corners of very different magnitude / sign (min + (max - min) != max in floating point) and integer rects wider than half the range:
    // every conversion must carry the STORED corners, not values recomputed from width and height
    {
        let vals: Vec<f64> = vec![-1e308, -1e16, -73.98, -0.1, 0.0, 0.1, 0.3, 1.0, 12345.678, 1.0000000000000002e16, f64::MAX];
        let nv = vals.len();
        run.stage("conversions-awkward-rects", nv * nv * nv * nv, |idx, acc| {
            let (x0, y0, x1, y1) = (vals[idx / (nv * nv * nv)], vals[(idx / (nv * nv)) % nv], vals[(idx / nv) % nv], vals[idx % nv]);
            let r = Rect::new(Coord { x: x0, y: y0 }, Coord { x: x1, y: y1 });
            let (mn, mx) = (Coord { x: x0.min(x1), y: y0.min(y1) }, Coord { x: x0.max(x1), y: y0.max(y1) });
            acc.evals += 6;
            acc.class(format!("awkward rect inexact-width{}", mn.x + (mx.x - mn.x) != mx.x || mn.y + (mx.y - mn.y) != mx.y));
            let want = vec![Coord { x: mx.x, y: mn.y }, Coord { x: mx.x, y: mx.y }, Coord { x: mn.x, y: mx.y }, Coord { x: mn.x, y: mn.y }, Coord { x: mx.x, y: mn.y }];
            let mut bad = |what: &str, detail: String| acc.viol(format!("conversion {} (corners of very different magnitude)", what), idx, || json!({"rect": format!("{:?}", r), "detail": detail}));
            if r.min() != mn || r.max() != mx {
                bad("Rect::new min/max", format!("{:?} {:?}", r.min(), r.max()));
            }
            let rp = r.to_polygon();
            if rp.exterior().0 != want {
                bad("Rect::to_polygon", format!("{:?}", rp));
            }
            let pf = Polygon::from(r);
            let cyc = |v: &Vec<Coord<f64>>| -> Vec<Coord<f64>> { v[..v.len() - 1].to_vec() };
            let (c1, c2) = (cyc(&pf.exterior().0), cyc(&want));
            if !(c1.len() == 4 && (0..4).any(|k| (0..4).all(|i| c1[(i + k) % 4] == c2[i]))) {
                bad("Polygon::from(Rect)", format!("{:?}", pf));
            }
            let corners = [mn, mx, Coord { x: mn.x, y: mx.y }, Coord { x: mx.x, y: mn.y }];
            if r.to_lines().iter().any(|l| !corners.contains(&l.start) || !corners.contains(&l.end)) {
                bad("Rect::to_lines", format!("{:?}", r.to_lines()));
            }
            match Rect::try_from(Geometry::from(r)) {
                Ok(x) if x == r => {}
                other => bad("Geometry::from(Rect) round trip", format!("{:?}", other)),
            }
            // split_x / split_y: both halves are Rects (min <= max in both components, whatever happens to the midpoint when the width overflows); when the
            // midpoint is finite they share it and keep the outer corners
            for (name, [h1, h2], horizontal) in [("split_x", r.split_x(), true), ("split_y", r.split_y(), false)] {
                for h in [h1, h2] {
                    if !(h.min().x <= h.max().x && h.min().y <= h.max().y) {
                        bad(&format!("Rect::{} returns a half with min > max", name), format!("{:?}", h));
                    }
                }
                let mid = if horizontal { mn.x + (mx.x - mn.x) / 2.0 } else { mn.y + (mx.y - mn.y) / 2.0 };
                if mid.is_finite() {
                    let ok = if horizontal { h1.min() == mn && h2.max() == mx && h1.max().x == mid && h2.min().x == mid && h1.max().y == mx.y && h2.min().y == mn.y } else { h1.min() == mn && h2.max() == mx && h1.max().y == mid && h2.min().y == mid && h1.max().x == mx.x && h2.min().x == mn.x };
                    if !ok {
                        bad(&format!("Rect::{} halves do not partition the rectangle at its midpoint", name), format!("{:?} {:?}", h1, h2));
                    }
                }
            }
            // integer twin over the full i32 range
            let iv = |v: f64| -> i32 { if v <= -1e16 { i32::MIN } else if v >= 1e16 { i32::MAX } else { (v * 1000.0) as i32 } };
            let ri = Rect::new(Coord { x: iv(x0), y: iv(y0) }, Coord { x: iv(x1), y: iv(y1) });
            let wi = vec![Coord { x: ri.max().x, y: ri.min().y }, Coord { x: ri.max().x, y: ri.max().y }, Coord { x: ri.min().x, y: ri.max().y }, Coord { x: ri.min().x, y: ri.min().y }, Coord { x: ri.max().x, y: ri.min().y }];
            match guard(|| ri.to_polygon()) {
                Ok(p) if p.exterior().0 == wi => {}
                other => acc.viol("conversion Rect<i32>::to_polygon (extent wider than half the range)".into(), idx, || json!({"rect": format!("{:?}", ri), "detail": format!("{:?}", other)})),
            }
        });
    }
    run.stage("conversions", n * n * n, |idx, acc| {
        let (a, b, c3) = (g[idx / (n * n)], g[(idx / n) % n], g[idx % n]);
        let (ca, cb, cc) = (Coord { x: a.0, y: a.1 }, Coord { x: b.0, y: b.1 }, Coord { x: c3.0, y: c3.1 });
        let mut bad = |what: &str, detail: String| {
            acc.viol(format!("conversion {}", what), idx, || json!({"a": format!("{:?}", ca), "b": format!("{:?}", cb), "c": format!("{:?}", cc), "detail": detail}));
        };
        // Line
        let line = Line::new(ca, cb);
        let ls = LineString::from(line);
        if ls.0 != vec![ca, cb] {
            bad("LineString::from(Line)", format!("{:?}", ls));
        }
        match Line::try_from(Geometry::from(line)) {
            Ok(l) if l == line => {}
            other => bad("Geometry::from(Line) round trip", format!("{:?}", other)),
        }
        // Rect (any corner order)
        let r = Rect::new(ca, cb);
        if !(r.min().x <= r.max().x && r.min().y <= r.max().y) || r.min().x != a.0.min(b.0) || r.max().y != a.1.max(b.1) {
            bad("Rect::new normalisation", format!("{:?}", r));
        }
        let rp = r.to_polygon();
        let want = vec![
            Coord { x: r.max().x, y: r.min().y },
            Coord { x: r.max().x, y: r.max().y },
            Coord { x: r.min().x, y: r.max().y },
            Coord { x: r.min().x, y: r.min().y },
            Coord { x: r.max().x, y: r.min().y },
        ];
        // documented corner order of Rect::to_polygon: (max.x,min.y),(max.x,max.y),(min.x,max.y),(min.x,min.y), closed
        if rp.exterior().0 != want || !rp.interiors().is_empty() {
            bad("Rect::to_polygon", format!("{:?}", rp));
        }
        // Polygon::from(rect) documents the same CCW corner cycle starting at (min.x,min.y): same cyclic sequence
        let pf = Polygon::from(r);
        let cyc = |v: &Vec<Coord<f64>>| -> Vec<Coord<f64>> { v[..v.len() - 1].to_vec() };
        let (c1, c2) = (cyc(&pf.exterior().0), cyc(&rp.exterior().0));
        let same_cycle = c1.len() == 4 && (0..4).any(|k| (0..4).all(|i| c1[(i + k) % 4] == c2[i]));
        if !same_cycle || !pf.exterior().is_closed() || !pf.interiors().is_empty() {
            bad("Polygon::from(Rect) is not the corner cycle of to_polygon", format!("{:?}", pf));
        }
        let rl = r.to_lines();
        let pl: Vec<Line<f64>> = rp.exterior().lines().collect();
        // same 4 edges as a set (to_lines documents its own order)
        let mut e1: Vec<String> = rl.iter().map(|l| { let (s, e) = if (l.start.x, l.start.y) <= (l.end.x, l.end.y) { (l.start, l.end) } else { (l.end, l.start) }; format!("{:?}{:?}", s, e) }).collect();
        let mut e2: Vec<String> = pl.iter().map(|l| { let (s, e) = if (l.start.x, l.start.y) <= (l.end.x, l.end.y) { (l.start, l.end) } else { (l.end, l.start) }; format!("{:?}{:?}", s, e) }).collect();
        e1.sort();
        e2.sort();
        if e1 != e2 {
            bad("Rect::to_lines edge set", format!("{:?} vs {:?}", e1, e2));
        }
        match Rect::try_from(Geometry::from(r)) {
            Ok(x) if x == r => {}
            other => bad("Geometry::from(Rect) round trip", format!("{:?}", other)),
        }
        // Triangle (tuple constructor keeps order)
        let t = Triangle(ca, cb, cc);
        if t.to_array() != [ca, cb, cc] {
            bad("Triangle::to_array", format!("{:?}", t.to_array()));
        }
        let tp = t.to_polygon();
        if tp.exterior().0 != vec![ca, cb, cc, ca] {
            bad("Triangle::to_polygon", format!("{:?}", tp));
        }
        if Polygon::from(t) != tp {
            bad("Polygon::from(Triangle)", format!("{:?}", Polygon::from(t)));
        }
        let tl = t.to_lines();
        if tl != [Line::new(ca, cb), Line::new(cb, cc), Line::new(cc, ca)] {
            bad("Triangle::to_lines", format!("{:?}", tl));
        }
        match Triangle::try_from(Geometry::from(t)) {
            Ok(x) if x == t => {}
            other => bad("Geometry::from(Triangle) round trip", format!("{:?}", other)),
        }
        // Polygon / LineString / Point through the enum
        let pg = Polygon::new(LineString::new(vec![ca, cb, cc]), vec![LineString::new(vec![cb, cc])]);
        match Polygon::try_from(Geometry::from(pg.clone())) {
            Ok(x) if x == pg => {}
            other => bad("Geometry::from(Polygon) round trip", format!("{:?}", other)),
        }
        let l3 = LineString::new(vec![ca, cb, cc]);
        match LineString::try_from(Geometry::from(l3.clone())) {
            Ok(x) if x == l3 => {}
            other => bad("Geometry::from(LineString) round trip", format!("{:?}", other)),
        }
        acc.evals += 14;
        acc.class(format!("conv {}{}{}", (a == b) as u8, (b == c3) as u8, (a.0 == b.0 || a.1 == b.1) as u8));
        acc.sample(idx, || json!({"a": format!("{:?}", ca), "b": format!("{:?}", cb), "c": format!("{:?}", cc)}));
    });
}

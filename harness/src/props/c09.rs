//! C09 Simplification keeps a vertex subsequence within the tolerance.
use crate::build::*;
use crate::engine::*;
use crate::enumr::*;
use crate::exact::*;
use geo::{Coord, LineString, MultiLineString, MultiPolygon, Polygon, Simplify, SimplifyIdx, SimplifyVw, SimplifyVwIdx, SimplifyVwPreserve};
use serde_json::json;

fn eps_alphabet() -> Vec<f64> {
    let h = std::f64::consts::FRAC_1_SQRT_2;
    // 1e-20: positive but below machine epsilon (still a tolerance: exactly collinear / repeated vertices go, nothing else does)
    vec![-1.0, 0.0, 1e-20, 0.25, 0.5, h - 1e-9, h + 1e-9, 1.0, std::f64::consts::SQRT_2, 2.0, 5.0, 100.0]
}
fn d2_pt_seg_f(q: IP, s: IP, e: IP) -> f64 {
    d2_hp_seg(&HP::int(q), s, e).f()
}
fn coords_of(l: &LineString<f64>) -> Vec<IP> {
    l.0.iter().map(|c| (c.x as i64, c.y as i64)).collect()
}
/// is `out` obtainable from `inp` by keeping exactly the positions `idx`
fn is_kept(inp: &[IP], out: &[IP], idx: &[usize]) -> bool {
    idx.len() == out.len() && idx.windows(2).all(|w| w[0] < w[1]) && idx.iter().all(|&i| i < inp.len()) && idx.iter().zip(out).all(|(&i, o)| inp[i] == *o)
}
/// greedy subsequence match returning positions (used where no idx variant exists)
fn subseq_positions(inp: &[IP], out: &[IP]) -> Option<Vec<usize>> {
    let mut pos = vec![];
    let mut i = 0;
    for o in out {
        while i < inp.len() && inp[i] != *o {
            i += 1;
        }
        if i == inp.len() {
            return None;
        }
        pos.push(i);
        i += 1;
    }
    Some(pos)
}

/// Is there an embedding of `out` into `inp` as a subsequence with out[0] -> 0 and out[last] -> n-1 such that every dropped
/// vertex is within eps of the retained segment replacing it? (positions are ambiguous when vertices repeat, so: existence)
fn rdp_embedding_exists(inp: &[IP], out: &[IP], eps: f64) -> bool {
    let (n, m) = (inp.len(), out.len());
    if m == 0 || n == 0 || m > n {
        return m == n;
    }
    if m == 1 {
        return n == 1 && inp[0] == out[0];
    }
    let lim = eps * eps * (1.0 + 1e-12);
    // feas[p] for the current j: out[..=j] embedded with out[j] at position p
    let mut feas = vec![false; n];
    feas[0] = inp[0] == out[0];
    for j in 1..m {
        let mut next = vec![false; n];
        for q in j..n {
            if inp[q] != out[j] {
                continue;
            }
            for p in (j - 1)..q {
                if feas[p] && (p + 1..q).all(|k| d2_pt_seg_f(inp[k], inp[p], inp[q]) <= lim) {
                    next[q] = true;
                    break;
                }
            }
        }
        feas = next;
    }
    feas[n - 1]
}

fn check_rdp(acc: &mut Acc, idx: usize, inp: &[IP], eps: f64, out: &[IP], kept: &[usize], what: &str, min_len: usize) {
    let n = inp.len();
    let wit = || json!({"input": format!("{:?}", inp), "epsilon": eps, "output": format!("{:?}", out), "kept_idx": format!("{:?}", kept)});
    if eps <= 0.0 {
        if out != inp {
            acc.viol(format!("{} epsilon<=0 is not the identity", what), idx, wit);
        } else if !kept.iter().copied().eq(0..n) {
            acc.viol(format!("{} epsilon<=0: the index variant is not the identity", what), idx, wit);
        }
        return;
    }
    if !is_kept(inp, out, kept) {
        acc.viol(format!("{} output is not the subsequence named by the indices", what), idx, wit);
        return;
    }
    if n >= 1 && (kept.first() != Some(&0) || kept.last() != Some(&(n - 1))) {
        acc.viol(format!("{} first/last vertex not kept (n={})", what, n), idx, wit);
        return;
    }
    if n >= min_len && out.len() < min_len {
        acc.viol(format!("{} shrank below {} coordinates", what, min_len), idx, wit);
    }
    for w in kept.windows(2) {
        for k in w[0] + 1..w[1] {
            let d2 = d2_pt_seg_f(inp[k], inp[w[0]], inp[w[1]]);
            if d2 > eps * eps * (1.0 + 1e-12) {
                acc.viol(format!("{} dropped a vertex farther than epsilon from its replacing segment", what), idx, wit);
                return;
            }
        }
    }
    if out.len() < n {
        acc.class(format!("{} n{} kept{} eps{}", what, n, out.len(), eps));
    }
}
fn check_vw(acc: &mut Acc, idx: usize, inp: &[IP], eps: f64, out: &[IP], kept: &[usize], what: &str, min_len: usize, strict_area: bool) {
    let n = inp.len();
    let wit = || json!({"input": format!("{:?}", inp), "epsilon": eps, "output": format!("{:?}", out), "kept_idx": format!("{:?}", kept)});
    if eps <= 0.0 {
        if out != inp {
            acc.viol(format!("{} epsilon<=0 is not the identity", what), idx, wit);
        } else if strict_area && !kept.iter().copied().eq(0..n) {
            acc.viol(format!("{} epsilon<=0: the index variant is not the identity", what), idx, wit);
        }
        return;
    }
    if !is_kept(inp, out, kept) {
        acc.viol(format!("{} output is not the subsequence named by the indices", what), idx, wit);
        return;
    }
    // index variants give exact positions; otherwise (greedy match, repeated vertices) compare the end values
    let ends_ok = if strict_area { kept.first() == Some(&0) && kept.last() == Some(&(n - 1)) } else { out.first() == inp.first() && out.last() == inp.last() };
    if n >= 1 && !ends_ok {
        acc.viol(format!("{} first/last vertex not kept (n={})", what, n), idx, wit);
        return;
    }
    if n >= min_len && out.len() < min_len {
        acc.viol(format!("{} shrank below {} coordinates", what, min_len), idx, wit);
    }
    if strict_area && out.len() > min_len.max(2) {
        for w in out.windows(3) {
            let a2 = area2(&[w[0], w[1], w[2]]).abs() as f64;
            if !(a2 / 2.0 > eps) {
                acc.viol(format!("{} kept an interior vertex whose triangle area is not greater than epsilon", what), idx, wit);
                return;
            }
        }
    }
    if out.len() < n {
        acc.class(format!("{} n{} kept{} eps{}", what, n, out.len(), eps));
    }
}

pub fn run(mut run: Run) -> i32 {
    let quick = run.ctx.quick();
    run.rule = "every vertex sequence of length 0..6 (thorough 7) over the 3x3 lattice with repetition, as LineString and (closed) as Polygon ring / Multi* member, x an epsilon alphabet straddling the attainable distances and areas: \
        simplify/simplify_idx (RDP), simplify_vw/simplify_vw_idx, simplify_vw_preserve; oracle: subsequence keeping first and last, exact rational distance of every dropped vertex to its replacing segment <= eps, \
        exact triangle area of every kept interior vertex > eps (VW), index variants name exactly the kept positions, eps<=0 identity, rings stay closed with >= 4 coordinates; distinct = (algorithm, n, kept, eps) where something was dropped"
        .into();
    run.assumptions = vec!["epsilon comparisons use 1e-12 relative slack on the RDP side only".into()];
    let g3 = grid(3);
    let eps = eps_alphabet();
    let ne = eps.len();
    let kmax = if quick { 6 } else { 7 };
    for k in 0..=kmax {
        let n = 9usize.pow(k as u32);
        let g3 = g3.clone();
        let eps = eps.clone();
        run.stage(&format!("linestring-len{}", k), n * ne, move |idx, acc| {
            let inp: Vec<IP> = nth_sequence(9, k, idx / ne).iter().map(|&i| g3[i]).collect();
            let e = eps[idx % ne];
            let l = ls(&inp);
            acc.evals += 4;
            acc.sample(idx, || json!({"input": format!("{:?}", inp), "epsilon": e}));
            match guard(|| (l.simplify(e), l.simplify_idx(e))) {
                Ok((o, i)) => check_rdp(acc, idx, &inp, e, &coords_of(&o), &i, "LineString::simplify", 2.min(k)),
                Err(p) => acc.viol("LineString::simplify panic".into(), idx, || json!({"input": format!("{:?}", inp), "epsilon": e, "panic": p})),
            }
            match guard(|| (l.simplify_vw(e), l.simplify_vw_idx(e))) {
                Ok((o, i)) => check_vw(acc, idx, &inp, e, &coords_of(&o), &i, "LineString::simplify_vw", 2.min(k), true),
                Err(p) => acc.viol("LineString::simplify_vw panic".into(), idx, || json!({"input": format!("{:?}", inp), "epsilon": e, "panic": p})),
            }
            match guard(|| l.simplify_vw_preserve(e)) {
                Ok(o) => {
                    let oc = coords_of(&o);
                    match subseq_positions(&inp, &oc) {
                        Some(pos) => check_vw(acc, idx, &inp, e, &oc, &pos, "LineString::simplify_vw_preserve", 2.min(k), false),
                        None => acc.viol("LineString::simplify_vw_preserve output not a subsequence".into(), idx, || json!({"input": format!("{:?}", inp), "epsilon": e, "output": format!("{:?}", oc)})),
                    }
                }
                Err(p) => acc.viol("LineString::simplify_vw_preserve panic".into(), idx, || json!({"input": format!("{:?}", inp), "epsilon": e, "panic": p})),
            }
        });
    }
    // polygons: every closed sequence with 3..=kmax-1 free vertices as a ring; plus a hole; plus Multi* wrappers
    for k in 3..=(kmax - 1) {
        let n = 9usize.pow(k as u32);
        let g3 = g3.clone();
        let eps = eps.clone();
        run.stage(&format!("polygon-ring-len{}", k + 1), n * ne, move |idx, acc| {
            let free: Vec<IP> = nth_sequence(9, k, idx / ne).iter().map(|&i| g3[i]).collect();
            let e = eps[idx % ne];
            let ring = close(&free);
            let pg = Polygon::new(ls(&ring), vec![ls(&ring)]);
            acc.evals += 3;
            let rn = pg.exterior().0.len(); // Polygon::new closes; already closed
            let inp = coords_of(pg.exterior());
            for (what, res, is_rdp, strict) in [
                ("Polygon::simplify", guard(|| pg.simplify(e)), true, false),
                ("Polygon::simplify_vw", guard(|| pg.simplify_vw(e)), false, false),
                ("Polygon::simplify_vw_preserve", guard(|| pg.simplify_vw_preserve(e)), false, false),
            ] {
                match res {
                    Err(p) => acc.viol(format!("{} panic", what), idx, || json!({"ring": format!("{:?}", inp), "epsilon": e, "panic": p})),
                    Ok(o) => {
                        if o.interiors().len() != 1 {
                            acc.viol(format!("{} changed the number of interior rings", what), idx, || json!({"ring": format!("{:?}", inp), "epsilon": e, "output": format!("{:?}", o)}));
                            continue;
                        }
                        for (rname, r) in [("exterior", o.exterior()), ("interior", &o.interiors()[0])] {
                            let oc = coords_of(r);
                            if !r.is_closed() {
                                acc.viol(format!("{} {} ring not closed", what, rname), idx, || json!({"ring": format!("{:?}", inp), "epsilon": e, "output": format!("{:?}", oc)}));
                                continue;
                            }
                            let min_len = if what == "Polygon::simplify_vw" { 0 } else { 4.min(rn) };
                            match subseq_positions(&inp, &oc) {
                                None => acc.viol(format!("{} {} output not a subsequence", what, rname), idx, || json!({"ring": format!("{:?}", inp), "epsilon": e, "output": format!("{:?}", oc)})),
                                Some(pos) => {
                                    // the greedy positions may differ from the ones the algorithm kept when vertices repeat; use them only for the
                                    // checks that do not depend on the choice (subsequence, endpoints via values, minimum length)
                                    let first_last_ok = oc.first() == inp.first() && oc.last() == inp.last();
                                    if e > 0.0 && !first_last_ok {
                                        acc.viol(format!("{} {} first/last not kept", what, rname), idx, || json!({"ring": format!("{:?}", inp), "epsilon": e, "output": format!("{:?}", oc)}));
                                    }
                                    if e <= 0.0 && oc != inp {
                                        acc.viol(format!("{} epsilon<=0 is not the identity", what), idx, || json!({"ring": format!("{:?}", inp), "epsilon": e, "output": format!("{:?}", oc)}));
                                    }
                                    if inp.len() >= min_len && oc.len() < min_len {
                                        acc.viol(format!("{} {} shrank below {} coordinates", what, rname, min_len), idx, || json!({"ring": format!("{:?}", inp), "epsilon": e, "output": format!("{:?}", oc)}));
                                    }
                                    let _ = (pos, strict);
                                    if e > 0.0 && is_rdp && first_last_ok && !rdp_embedding_exists(&inp, &oc, e) {
                                        acc.viol(format!("{} {} dropped a vertex farther than epsilon from its replacing segment (no admissible embedding)", what, rname), idx, || json!({"ring": format!("{:?}", inp), "epsilon": e, "output": format!("{:?}", oc)}));
                                    }
                                    if what == "Polygon::simplify_vw" {
                                        // a polygon ring is simplified as the line string it is (then closed by Polygon::new)
                                        let mut want = ls(&inp).simplify_vw(e);
                                        want.close();
                                        if coords_of(&want) != oc {
                                            acc.viol(format!("{} {} differs from LineString::simplify_vw of the ring", what, rname), idx, || json!({"ring": format!("{:?}", inp), "epsilon": e, "output": format!("{:?}", oc), "linestring": format!("{:?}", coords_of(&want))}));
                                        }
                                    }
                                    if oc.len() < inp.len() {
                                        acc.class(format!("{} n{} kept{} eps{}", what, inp.len(), oc.len(), e));
                                    }
                                }
                            }
                        }
                        // ring simplification must equal the LineString algorithm on the same closed sequence when it respects the minimum
                    }
                }
            }
            // several DIFFERENT interior rings (the ring and two translated copies): every output ring is the simplification of the input ring at
            // the same position
            if idx % 5 == 0 {
                let shift = |dx: i64, dy: i64| -> LineString<f64> { ls(&ring.iter().map(|p| (p.0 + dx, p.1 + dy)).collect::<Vec<IP>>()) };
                let pg3 = Polygon::new(ls(&ring), vec![shift(10, 0), shift(0, 10), shift(20, 20)]);
                acc.evals += 3;
                for (what, res) in [
                    ("Polygon::simplify", guard(|| pg3.simplify(e))),
                    ("Polygon::simplify_vw", guard(|| pg3.simplify_vw(e))),
                    ("Polygon::simplify_vw_preserve", guard(|| pg3.simplify_vw_preserve(e))),
                ] {
                    match res {
                        Err(p) => acc.viol(format!("{} panic (three interior rings)", what), idx, || json!({"ring": format!("{:?}", inp), "epsilon": e, "panic": p})),
                        Ok(o) => {
                            let ok = o.interiors().len() == 3
                                && o.interiors().iter().zip(pg3.interiors()).all(|(got, orig)| {
                                    let (gc, oc) = (coords_of(got), coords_of(orig));
                                    subseq_positions(&oc, &gc).is_some() && gc.first() == oc.first() && (e > 0.0 || gc == oc)
                                });
                            if !ok {
                                acc.viol(format!("{}: an output interior ring is not the simplification of the input ring at the same position (three different interior rings)", what), idx, || json!({"polygon": format!("{:?}", pg3), "epsilon": e, "output": format!("{:?}", o)}));
                            }
                        }
                    }
                }
            }
            // Multi* = member-wise
            if idx % 7 == 0 {
                let l1 = ls(&free);
                let l2 = ls(&ring);
                let mls = MultiLineString(vec![l1.clone(), l2.clone()]);
                let mpg = MultiPolygon(vec![pg.clone(), pg.clone()]);
                acc.evals += 6;
                let ok = guard(|| {
                    mls.simplify(e) == MultiLineString(vec![l1.simplify(e), l2.simplify(e)])
                        && mls.simplify_vw(e) == MultiLineString(vec![l1.simplify_vw(e), l2.simplify_vw(e)])
                        && mls.simplify_vw_preserve(e) == MultiLineString(vec![l1.simplify_vw_preserve(e), l2.simplify_vw_preserve(e)])
                        && mpg.simplify(e) == MultiPolygon(vec![pg.simplify(e), pg.simplify(e)])
                        && mpg.simplify_vw(e) == MultiPolygon(vec![pg.simplify_vw(e), pg.simplify_vw(e)])
                        && mpg.simplify_vw_preserve(e) == MultiPolygon(vec![pg.simplify_vw_preserve(e), pg.simplify_vw_preserve(e)])
                });
                if ok != Ok(true) {
                    acc.viol("Multi* simplification differs from member-wise simplification".into(), idx, || json!({"ring": format!("{:?}", inp), "epsilon": e, "result": format!("{:?}", ok)}));
                }
            }
        });
    }
    // twins of the index variants under exact maps: the kept positions must not change when the line string is translated far away (f64 at 2^52, f32 at 2^23:
    // every coordinate still exact, products of coordinates round), scaled to the ends of the exponent range together with the tolerance (RDP: 2^-600, 2^500;
    // VW: 2^-100, areas scale by 2^-200), or taken in f32 (VW only: its areas are exact half-integers there)
    {
        let k = if quick { 5 } else { 6 };
        let n = 9usize.pow(k as u32);
        let g3t = g3.clone();
        let epst = eps.clone();
        run.stage("index-twins-translated-scaled-f32", n * ne, move |idx, acc| {
            let inp: Vec<IP> = nth_sequence(9, k, idx / ne).iter().map(|&i| g3t[i]).collect();
            let e = epst[idx % ne];
            let l = ls(&inp);
            let (rdp0, vw0) = match guard(|| (l.simplify_idx(e), l.simplify_vw_idx(e))) {
                Ok(x) => x,
                Err(_) => return, // reported by the main stage
            };
            acc.class(format!("twins kept-rdp{} kept-vw{}", rdp0.len(), vw0.len()));
            // the twin's kept positions are judged against the property itself on the integer input (ties may legitimately break differently)
            let judge = |acc: &mut Acc, kept: Result<Vec<usize>, String>, rdp: bool, what: &str| {
                acc.evals += 1;
                match kept {
                    Err(p) => acc.viol(format!("{} panic", what), idx, || json!({"input": format!("{:?}", inp), "epsilon": e, "panic": p})),
                    Ok(k) => {
                        if k.iter().any(|&i| i >= inp.len()) {
                            acc.viol(format!("{} names a position outside the input", what), idx, || json!({"input": format!("{:?}", inp), "epsilon": e, "kept_idx": format!("{:?}", k)}));
                            return;
                        }
                        let out: Vec<IP> = k.iter().map(|&i| inp[i]).collect();
                        if rdp {
                            check_rdp(acc, idx, &inp, e, &out, &k, what, 2.min(inp.len()));
                        } else {
                            check_vw(acc, idx, &inp, e, &out, &k, what, 2.min(inp.len()), true);
                        }
                    }
                }
            };
            // far translations (exact)
            let (ox, oy) = (4503599627370496.0f64, -2251799813685248.0f64);
            let lt = LineString::new(inp.iter().map(|p| Coord { x: p.0 as f64 + ox, y: p.1 as f64 + oy }).collect());
            judge(acc, guard(|| lt.simplify_idx(e)), true, "simplify_idx [translated by (2^52, -2^51)]");
            judge(acc, guard(|| lt.simplify_vw_idx(e)), false, "simplify_vw_idx [translated by (2^52, -2^51)]");
            // f32, at the origin and at (2^23, -2^22): Visvalingam areas are exact half-integers there
            for (name, ox, oy) in [("simplify_vw_idx<f32>", 0.0f32, 0.0f32), ("simplify_vw_idx<f32> [translated by (2^23, -2^22)]", 8388608.0f32, -4194304.0f32)] {
                let l32 = LineString::new(inp.iter().map(|p| Coord { x: p.0 as f32 + ox, y: p.1 as f32 + oy }).collect());
                judge(acc, guard(|| l32.simplify_vw_idx(e as f32)), false, name);
            }
            // exact scalings together with the tolerance
            for (sc_exp, rdp) in [(-600i32, true), (500, true), (-100, false), (100, false)] {
                let sc = 2f64.powi(sc_exp);
                let lsc = LineString::new(inp.iter().map(|p| Coord { x: p.0 as f64 * sc, y: p.1 as f64 * sc }).collect());
                if rdp {
                    judge(acc, guard(|| lsc.simplify_idx(e * sc)), true, &format!("simplify_idx [line string and tolerance scaled by 2^{}]", sc_exp));
                } else {
                    judge(acc, guard(|| lsc.simplify_vw_idx(e * sc * sc)), false, &format!("simplify_vw_idx [line string scaled by 2^{}, tolerance by its square]", sc_exp));
                }
            }
        });
    }
    run.finish()
}

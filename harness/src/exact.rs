//! Exact reference kernel: the "boring" model every E1 check compares geo against.
//! Integer lattice inputs, homogeneous integer points (x/d, y/d) with i128 components,
//! brute force everywhere, no bounding boxes, no special cases for vertical edges.
//! Release builds keep overflow checks on (Cargo.toml), so an overflow is a loud machinery
//! failure (exit 2), never a silently wrong oracle answer.
use std::cmp::Ordering;

pub type IP = (i64, i64);

pub fn gcd(a: i128, b: i128) -> i128 {
    let (mut a, mut b) = (a.abs(), b.abs());
    while b != 0 {
        let t = a % b;
        a = b;
        b = t;
    }
    a
}

/// Exact rational.
#[derive(Clone, Copy, Debug)]
pub struct Rat {
    pub n: i128,
    pub d: i128,
}
impl Rat {
    pub fn new(n: i128, d: i128) -> Rat {
        assert!(d != 0, "Rat with zero denominator");
        let g = gcd(n, d).max(1);
        let (mut n, mut d) = (n / g, d / g);
        if d < 0 {
            n = -n;
            d = -d;
        }
        Rat { n, d }
    }
    pub fn int(n: i64) -> Rat {
        Rat { n: n as i128, d: 1 }
    }
    pub fn add(self, o: Rat) -> Rat {
        Rat::new(self.n * o.d + o.n * self.d, self.d * o.d)
    }
    pub fn sub(self, o: Rat) -> Rat {
        Rat::new(self.n * o.d - o.n * self.d, self.d * o.d)
    }
    pub fn mul(self, o: Rat) -> Rat {
        Rat::new(self.n * o.n, self.d * o.d)
    }
    pub fn div(self, o: Rat) -> Rat {
        Rat::new(self.n * o.d, self.d * o.n)
    }
    pub fn half(self) -> Rat {
        Rat::new(self.n, self.d * 2)
    }
    pub fn sgn(self) -> i32 {
        self.n.signum() as i32
    }
    pub fn abs(self) -> Rat {
        Rat { n: self.n.abs(), d: self.d }
    }
    pub fn is_zero(self) -> bool {
        self.n == 0
    }
    pub fn f(self) -> f64 {
        self.n as f64 / self.d as f64
    }
    pub fn min(self, o: Rat) -> Rat {
        if self <= o {
            self
        } else {
            o
        }
    }
}
impl PartialEq for Rat {
    fn eq(&self, o: &Rat) -> bool {
        self.n * o.d == o.n * self.d
    }
}
impl Eq for Rat {}
impl PartialOrd for Rat {
    fn partial_cmp(&self, o: &Rat) -> Option<Ordering> {
        Some(self.cmp(o))
    }
}
impl Ord for Rat {
    fn cmp(&self, o: &Rat) -> Ordering {
        (self.n * o.d).cmp(&(o.n * self.d))
    }
}

/// Homogeneous exact point (x/d, y/d), d > 0, gcd-normalised.
#[derive(Clone, Copy, Debug)]
pub struct HP {
    pub x: i128,
    pub y: i128,
    pub d: i128,
}
impl HP {
    pub fn new(x: i128, y: i128, d: i128) -> HP {
        assert!(d != 0);
        let g = gcd(gcd(x, y), d).max(1);
        let s = if d < 0 { -1 } else { 1 };
        HP { x: s * x / g, y: s * y / g, d: s * d / g }
    }
    pub fn int(p: IP) -> HP {
        HP { x: p.0 as i128, y: p.1 as i128, d: 1 }
    }
    pub fn mid(a: &HP, b: &HP) -> HP {
        HP::new(a.x * b.d + b.x * a.d, a.y * b.d + b.y * a.d, 2 * a.d * b.d)
    }
    pub fn xr(&self) -> Rat {
        Rat::new(self.x, self.d)
    }
    pub fn yr(&self) -> Rat {
        Rat::new(self.y, self.d)
    }
    pub fn fx(&self) -> f64 {
        self.x as f64 / self.d as f64
    }
    pub fn fy(&self) -> f64 {
        self.y as f64 / self.d as f64
    }
    pub fn from_rats(x: Rat, y: Rat) -> HP {
        HP::new(x.n * y.d, y.n * x.d, x.d * y.d)
    }
    /// exact value of an f64 pair whose coordinates are multiples of 2^-k, k<=40, and small
    pub fn from_f64(x: f64, y: f64) -> Option<HP> {
        if !x.is_finite() || !y.is_finite() || x.abs() > 1e9 || y.abs() > 1e9 {
            return None;
        }
        let s = (1u64 << 40) as f64;
        let (xs, ys) = (x * s, y * s);
        if xs.fract() != 0.0 || ys.fract() != 0.0 {
            return None;
        }
        Some(HP::new(xs as i128, ys as i128, 1i128 << 40))
    }
}
impl PartialEq for HP {
    fn eq(&self, o: &HP) -> bool {
        self.x * o.d == o.x * self.d && self.y * o.d == o.y * self.d
    }
}
impl Eq for HP {}

/// sign of (b-a) x (q-a) for integer a,b and exact q
pub fn orient(a: IP, b: IP, q: &HP) -> i32 {
    let (ax, ay, bx, by) = (a.0 as i128, a.1 as i128, b.0 as i128, b.1 as i128);
    ((bx - ax) * (q.y - ay * q.d) - (by - ay) * (q.x - ax * q.d)).signum() as i32
}
pub fn orient_i(a: IP, b: IP, c: IP) -> i32 {
    ((b.0 - a.0) as i128 * (c.1 - a.1) as i128 - (b.1 - a.1) as i128 * (c.0 - a.0) as i128).signum() as i32
}
fn between(a: i64, b: i64, x: i128, d: i128) -> bool {
    let (lo, hi) = if a <= b { (a, b) } else { (b, a) };
    lo as i128 * d <= x && x <= hi as i128 * d
}
/// q on the closed segment ab (a may equal b)
pub fn on_seg(a: IP, b: IP, q: &HP) -> bool {
    orient(a, b, q) == 0 && between(a.0, b.0, q.x, q.d) && between(a.1, b.1, q.y, q.d)
}
pub fn on_seg_i(a: IP, b: IP, p: IP) -> bool {
    on_seg(a, b, &HP::int(p))
}
/// unique intersection point of two non-parallel closed segments, if any
pub fn seg_x(a: IP, b: IP, c: IP, d: IP) -> Option<HP> {
    let r = ((b.0 - a.0) as i128, (b.1 - a.1) as i128);
    let s = ((d.0 - c.0) as i128, (d.1 - c.1) as i128);
    let den = r.0 * s.1 - r.1 * s.0;
    if den == 0 {
        return None;
    }
    let qp = ((c.0 - a.0) as i128, (c.1 - a.1) as i128);
    let tn = qp.0 * s.1 - qp.1 * s.0; // t = tn/den along ab
    let un = qp.0 * r.1 - qp.1 * r.0; // u = un/den along cd
    let inr = |n: i128| if den > 0 { 0 <= n && n <= den } else { den <= n && n <= 0 };
    if inr(tn) && inr(un) {
        Some(HP::new(a.0 as i128 * den + tn * r.0, a.1 as i128 * den + tn * r.1, den))
    } else {
        None
    }
}
/// do two closed integer segments share at least one point
pub fn segs_meet(a: IP, b: IP, c: IP, d: IP) -> bool {
    let (o1, o2, o3, o4) = (orient_i(a, b, c), orient_i(a, b, d), orient_i(c, d, a), orient_i(c, d, b));
    if o1 * o2 < 0 && o3 * o4 < 0 {
        return true;
    }
    on_seg_i(a, b, c) || on_seg_i(a, b, d) || on_seg_i(c, d, a) || on_seg_i(c, d, b)
}


pub enum Common {
    Nothing,
    Point(HP),
    Overlap,
}
/// the common part of two closed integer segments
pub fn seg_common(a: IP, b: IP, c: IP, d: IP) -> Common {
    if !segs_meet(a, b, c, d) {
        return Common::Nothing;
    }
    if let Some(p) = seg_x(a, b, c, d) {
        return Common::Point(p);
    }
    let mut common: Vec<HP> = vec![];
    for &p in &[a, b] {
        if on_seg_i(c, d, p) {
            push_unique(&mut common, HP::int(p));
        }
    }
    for &p in &[c, d] {
        if on_seg_i(a, b, p) {
            push_unique(&mut common, HP::int(p));
        }
    }
    if common.len() == 1 {
        Common::Point(common[0])
    } else {
        Common::Overlap
    }
}

#[derive(Clone, Debug, PartialEq, Eq, Hash, PartialOrd, Ord)]
pub struct Poly {
    pub shell: Vec<IP>,      // unclosed, >= 3 vertices
    pub holes: Vec<Vec<IP>>, // unclosed
}
/// Abstract single-dimension geometry = a point set description.
#[derive(Clone, Debug, PartialEq, Eq, Hash, PartialOrd, Ord)]
pub enum AG {
    Pts(Vec<IP>),
    /// each component a vertex sequence (>= 2 coordinates); closed iff first == last
    Lines(Vec<Vec<IP>>),
    Polys(Vec<Poly>),
}
impl AG {
    pub fn segs(&self) -> Vec<(IP, IP)> {
        let mut v = vec![];
        match self {
            AG::Pts(_) => {}
            AG::Lines(ls) => {
                for l in ls {
                    for w in l.windows(2) {
                        if w[0] != w[1] {
                            v.push((w[0], w[1]));
                        }
                    }
                }
            }
            AG::Polys(ps) => {
                for p in ps {
                    for r in std::iter::once(&p.shell).chain(p.holes.iter()) {
                        let n = r.len();
                        for i in 0..n {
                            if r[i] != r[(i + 1) % n] {
                                v.push((r[i], r[(i + 1) % n]));
                            }
                        }
                    }
                }
            }
        }
        v
    }
    pub fn pts(&self) -> Vec<IP> {
        match self {
            AG::Pts(p) => p.clone(),
            _ => vec![],
        }
    }
    pub fn dim(&self) -> i32 {
        match self {
            AG::Pts(_) => 0,
            AG::Lines(_) => 1,
            AG::Polys(_) => 2,
        }
    }
    pub fn is_empty(&self) -> bool {
        match self {
            AG::Pts(p) => p.is_empty(),
            AG::Lines(l) => l.is_empty(),
            AG::Polys(p) => p.is_empty(),
        }
    }
    pub fn coords(&self) -> Vec<IP> {
        match self {
            AG::Pts(p) => p.clone(),
            AG::Lines(ls) => ls.iter().flatten().cloned().collect(),
            AG::Polys(ps) => ps.iter().flat_map(|p| p.shell.iter().chain(p.holes.iter().flatten())).cloned().collect(),
        }
    }
    pub fn map(&self, f: &dyn Fn(IP) -> IP) -> AG {
        match self {
            AG::Pts(p) => AG::Pts(p.iter().map(|&c| f(c)).collect()),
            AG::Lines(ls) => AG::Lines(ls.iter().map(|l| l.iter().map(|&c| f(c)).collect()).collect()),
            AG::Polys(ps) => AG::Polys(
                ps.iter()
                    .map(|p| Poly {
                        shell: p.shell.iter().map(|&c| f(c)).collect(),
                        holes: p.holes.iter().map(|h| h.iter().map(|&c| f(c)).collect()).collect(),
                    })
                    .collect(),
            ),
        }
    }
}

/// position of q relative to a ring given as unclosed vertex list: 0 outside, 1 on the ring, 2 inside
/// (non-zero winding number; for simple rings the same as even-odd)
pub fn ring_pos(r: &[IP], q: &HP) -> i32 {
    let n = r.len();
    let mut w = 0;
    for i in 0..n {
        let (a, b) = (r[i], r[(i + 1) % n]);
        if on_seg(a, b, q) {
            return 1;
        }
        let a_le = a.1 as i128 * q.d <= q.y;
        let b_le = b.1 as i128 * q.d <= q.y;
        if a_le {
            if !b_le && orient(a, b, q) > 0 {
                w += 1;
            }
        } else if b_le && orient(a, b, q) < 0 {
            w -= 1;
        }
    }
    if w != 0 {
        2
    } else {
        0
    }
}

pub const I: usize = 0;
pub const B: usize = 1;
pub const E: usize = 2;

/// Interior / Boundary / Exterior of g at q, from the OGC definitions.
pub fn locate(g: &AG, q: &HP) -> usize {
    match g {
        AG::Pts(ps) => {
            if ps.iter().any(|&p| HP::int(p) == *q) {
                I
            } else {
                E
            }
        }
        AG::Lines(ls) => {
            let mut bc = 0;
            let mut on = false;
            for l in ls {
                if l.is_empty() {
                    continue;
                }
                let closed = l.first() == l.last() && l.len() > 1;
                if !closed {
                    if HP::int(l[0]) == *q {
                        bc += 1;
                    }
                    if HP::int(*l.last().unwrap()) == *q {
                        bc += 1;
                    }
                }
                if l.len() == 1 && HP::int(l[0]) == *q {
                    on = true;
                }
                for w in l.windows(2) {
                    if on_seg(w[0], w[1], q) {
                        on = true;
                    }
                }
            }
            if bc % 2 == 1 {
                B
            } else if on {
                I
            } else {
                E
            }
        }
        AG::Polys(ps) => {
            let mut inside = false;
            let mut bnd = false;
            for p in ps {
                match ring_pos(&p.shell, q) {
                    1 => bnd = true,
                    2 => {
                        let mut inh = false;
                        for h in &p.holes {
                            match ring_pos(h, q) {
                                1 => {
                                    bnd = true;
                                    inh = true;
                                }
                                2 => inh = true,
                                _ => {}
                            }
                        }
                        if !inh {
                            inside = true;
                        }
                    }
                    _ => {}
                }
            }
            if bnd {
                B
            } else if inside {
                I
            } else {
                E
            }
        }
    }
}

/// The arrangement of a set of integer segments and isolated points:
/// vertices, sub-edge midpoints, and face witnesses strictly inside the faces next to each sub-edge.
pub struct Arrangement {
    pub verts: Vec<HP>,
    pub mids: Vec<HP>,
    pub faces: Vec<HP>,
}

fn push_unique(v: &mut Vec<HP>, p: HP) {
    if !v.contains(&p) {
        v.push(p);
    }
}

pub fn arrangement(segs: &[(IP, IP)], iso: &[IP]) -> Arrangement {
    let mut verts: Vec<HP> = vec![];
    for &p in iso {
        push_unique(&mut verts, HP::int(p));
    }
    for &(s, e) in segs {
        push_unique(&mut verts, HP::int(s));
        push_unique(&mut verts, HP::int(e));
    }
    for i in 0..segs.len() {
        for j in i + 1..segs.len() {
            if let Some(p) = seg_x(segs[i].0, segs[i].1, segs[j].0, segs[j].1) {
                push_unique(&mut verts, p);
            }
        }
    }
    let mut mids = vec![];
    let mut faces = vec![];
    for &(s, e) in segs {
        let dir = ((e.0 - s.0) as i128, (e.1 - s.1) as i128);
        let mut on: Vec<(i128, i128, HP)> = verts
            .iter()
            .filter(|v| on_seg(s, e, v))
            .map(|v| {
                // parameter along the segment as a fraction key/d
                let k = (v.x - s.0 as i128 * v.d) * dir.0 + (v.y - s.1 as i128 * v.d) * dir.1;
                (k, v.d, *v)
            })
            .collect();
        on.sort_by(|a, b| (a.0 * b.1).cmp(&(b.0 * a.1)));
        for w in on.windows(2) {
            let m = HP::mid(&w[0].2, &w[1].2);
            mids.push(m);
            for sign in [1i128, -1] {
                let n = (-dir.1 * sign, dir.0 * sign); // normal
                let nn = n.0 * n.0 + n.1 * n.1;
                // smallest t>0 such that m + t n meets another segment or a vertex
                let mut best: Option<Rat> = None;
                let mut upd = |t: Rat| {
                    if t.sgn() > 0 && best.map_or(true, |b| t < b) {
                        best = Some(t);
                    }
                };
                for &(c, d) in segs {
                    let sv = ((d.0 - c.0) as i128, (d.1 - c.1) as i128);
                    let den = n.0 * sv.1 - n.1 * sv.0;
                    // qp = c - m  (scaled by m.d)
                    let qp = (c.0 as i128 * m.d - m.x, c.1 as i128 * m.d - m.y);
                    if den == 0 {
                        continue; // parallel to the ray: its endpoints are vertices, handled below
                    }
                    let tn = qp.0 * sv.1 - qp.1 * sv.0; // t = tn/(den*m.d)
                    let un = qp.0 * n.1 - qp.1 * n.0; // u = un/(den*m.d)
                    let ud = den * m.d;
                    let u_in = if ud > 0 { 0 <= un && un <= ud } else { ud <= un && un <= 0 };
                    if u_in {
                        upd(Rat::new(tn, den * m.d));
                    }
                }
                for v in &verts {
                    // v - m, scaled by v.d*m.d
                    let dv = (v.x * m.d - m.x * v.d, v.y * m.d - m.y * v.d);
                    if dv.0 * n.1 - dv.1 * n.0 == 0 {
                        upd(Rat::new(dv.0 * n.0 + dv.1 * n.1, nn * v.d * m.d));
                    }
                }
                let t = best.map_or(Rat::int(1), |b| b.half());
                // w = m + t n
                let w = HP::new(m.x * t.d + t.n * n.0 * m.d, m.y * t.d + t.n * n.1 * m.d, m.d * t.d);
                faces.push(w);
            }
        }
    }
    Arrangement { verts, mids, faces }
}

pub type Matrix = [[i32; 3]; 3]; // -1 = F

/// The true DE-9IM matrix of two abstract geometries.
pub fn de9im(a: &AG, b: &AG) -> Matrix {
    let mut m = [[-1; 3]; 3];
    m[E][E] = 2;
    let mut segs = a.segs();
    segs.extend(b.segs());
    let mut iso: Vec<IP> = a.pts();
    iso.extend(b.pts());
    // zero-length line components behave as points of the line's interior
    for g in [a, b] {
        if let AG::Lines(ls) = g {
            for l in ls {
                if !l.is_empty() && l.iter().all(|&c| c == l[0]) {
                    iso.push(l[0]);
                }
            }
        }
    }
    let arr = arrangement(&segs, &iso);
    let mut note = |q: &HP, d: i32| {
        let (la, lb) = (locate(a, q), locate(b, q));
        if m[la][lb] < d {
            m[la][lb] = d;
        }
    };
    for v in &arr.verts {
        note(v, 0);
    }
    for v in &arr.mids {
        note(v, 1);
    }
    for v in &arr.faces {
        note(v, 2);
    }
    m
}
pub fn transpose(m: &Matrix) -> Matrix {
    let mut t = [[-1; 3]; 3];
    for i in 0..3 {
        for j in 0..3 {
            t[j][i] = m[i][j];
        }
    }
    t
}
pub fn mstr(m: &Matrix) -> String {
    let mut s = String::new();
    for r in m {
        for &c in r {
            s.push(match c {
                -1 => 'F',
                0 => '0',
                1 => '1',
                _ => '2',
            });
        }
    }
    s
}
/// match a matrix string against a mask like "T*F**F***"
pub fn mask(m: &str, pat: &str) -> bool {
    m.bytes().zip(pat.bytes()).all(|(c, p)| match p {
        b'*' => true,
        b'T' => c != b'F',
        b'F' => c == b'F',
        x => c == x,
    })
}
pub fn m_intersects(m: &str) -> bool {
    !mask(m, "FF*FF****")
}
pub fn m_contains(m: &str) -> bool {
    mask(m, "T*****FF*")
}
pub fn m_within(m: &str) -> bool {
    mask(m, "T*F**F***")
}

fn d2_pt_seg(q: IP, s: IP, e: IP) -> Rat {
    let d = ((e.0 - s.0) as i128, (e.1 - s.1) as i128);
    let dd = d.0 * d.0 + d.1 * d.1;
    let qs = ((q.0 - s.0) as i128, (q.1 - s.1) as i128);
    if dd == 0 {
        return Rat::new(qs.0 * qs.0 + qs.1 * qs.1, 1);
    }
    let t = qs.0 * d.0 + qs.1 * d.1; // t/dd
    if t <= 0 {
        return Rat::new(qs.0 * qs.0 + qs.1 * qs.1, 1);
    }
    if t >= dd {
        let qe = ((q.0 - e.0) as i128, (q.1 - e.1) as i128);
        return Rat::new(qe.0 * qe.0 + qe.1 * qe.1, 1);
    }
    // perpendicular distance^2 = cross^2 / dd
    let cr = d.0 * qs.1 - d.1 * qs.0;
    Rat::new(cr * cr, dd)
}
/// exact squared distance from a rational point to an integer segment
pub fn d2_hp_seg(q: &HP, s: IP, e: IP) -> Rat {
    let d = ((e.0 - s.0) as i128, (e.1 - s.1) as i128);
    let dd = d.0 * d.0 + d.1 * d.1;
    let qs = (q.x - s.0 as i128 * q.d, q.y - s.1 as i128 * q.d); // scaled by q.d
    let qd2 = q.d * q.d;
    if dd == 0 {
        return Rat::new(qs.0 * qs.0 + qs.1 * qs.1, qd2);
    }
    let t = qs.0 * d.0 + qs.1 * d.1; // t/(dd*q.d)
    if t <= 0 {
        return Rat::new(qs.0 * qs.0 + qs.1 * qs.1, qd2);
    }
    if t >= dd * q.d {
        let qe = (q.x - e.0 as i128 * q.d, q.y - e.1 as i128 * q.d);
        return Rat::new(qe.0 * qe.0 + qe.1 * qe.1, qd2);
    }
    let cr = d.0 * qs.1 - d.1 * qs.0;
    Rat::new(cr * cr, dd * qd2)
}
/// exact squared distance from a rational point to a geometry (0 if it is not exterior)
pub fn d2_hp_geom(q: &HP, g: &AG) -> Option<Rat> {
    if g.is_empty() {
        return None;
    }
    if locate(g, q) != E {
        return Some(Rat::int(0));
    }
    let mut best: Option<Rat> = None;
    let mut upd = |d: Rat| {
        if best.map_or(true, |x| d < x) {
            best = Some(d);
        }
    };
    for p in g.pts() {
        upd(d2_hp_seg(q, p, p));
    }
    for (s, e) in g.segs() {
        upd(d2_hp_seg(q, s, e));
    }
    if let AG::Lines(ls) = g {
        for l in ls {
            if !l.is_empty() {
                upd(d2_hp_seg(q, l[0], l[0]));
            }
        }
    }
    best
}
/// exact squared distance between two abstract geometries (0 if they intersect)
pub fn dist2(a: &AG, b: &AG) -> Option<Rat> {
    if a.is_empty() || b.is_empty() {
        return None;
    }
    let m = de9im(a, b);
    if !(m[I][I] == -1 && m[I][B] == -1 && m[B][I] == -1 && m[B][B] == -1) {
        return Some(Rat::int(0));
    }
    let mut best: Option<Rat> = None;
    let mut upd = |d: Rat| {
        if best.map_or(true, |x| d < x) {
            best = Some(d);
        }
    };
    let (sa, sb) = (a.segs(), b.segs());
    let mut pa = a.pts();
    let mut pb = b.pts();
    for &(s, e) in &sa {
        pa.push(s);
        pa.push(e);
    }
    for &(s, e) in &sb {
        pb.push(s);
        pb.push(e);
    }
    for &p in &pa {
        for &q in &pb {
            upd(d2_pt_seg(p, q, q));
        }
        for &(s, e) in &sb {
            upd(d2_pt_seg(p, s, e));
        }
    }
    for &q in &pb {
        for &(s, e) in &sa {
            upd(d2_pt_seg(q, s, e));
        }
    }
    best
}

/// twice the signed area of an unclosed ring
pub fn area2(r: &[IP]) -> i64 {
    let n = r.len();
    let mut s = 0;
    for i in 0..n {
        s += r[i].0 * r[(i + 1) % n].1 - r[i].1 * r[(i + 1) % n].0;
    }
    s
}
/// exact (twice area, 6*area*cx, 6*area*cy) moments of an unclosed ring, signed
pub fn ring_moments(r: &[IP]) -> (i128, i128, i128) {
    let n = r.len();
    let (mut a, mut cx, mut cy) = (0i128, 0i128, 0i128);
    for i in 0..n {
        let (p, q) = (r[i], r[(i + 1) % n]);
        let cr = (p.0 * q.1 - q.0 * p.1) as i128;
        a += cr;
        cx += (p.0 + q.0) as i128 * cr;
        cy += (p.1 + q.1) as i128 * cr;
    }
    (a, cx, cy)
}
/// exact unsigned area of a polygon (shell minus holes), as a rational
pub fn poly_area(p: &Poly) -> Rat {
    let mut a = area2(&p.shell).abs() as i128;
    for h in &p.holes {
        a -= area2(h).abs() as i128;
    }
    Rat::new(a, 2)
}
/// exact centroid of the areal geometry, None if zero area
pub fn areal_centroid(ps: &[Poly]) -> Option<(Rat, Rat)> {
    let (mut a, mut cx, mut cy) = (0i128, 0i128, 0i128);
    for p in ps {
        for (k, r) in std::iter::once(&p.shell).chain(p.holes.iter()).enumerate() {
            let (ra, rx, ry) = ring_moments(r);
            let s = if ra < 0 { -1 } else { 1 };
            let w = if k == 0 { 1 } else { -1 };
            a += w * s * ra;
            cx += w * s * rx;
            cy += w * s * ry;
        }
    }
    if a == 0 {
        return None;
    }
    Some((Rat::new(cx, 3 * a), Rat::new(cy, 3 * a)))
}

/// strict convex hull (CCW, no collinear vertices) of integer points; monotone chain
pub fn hull(pts: &[IP]) -> Vec<IP> {
    let mut p: Vec<IP> = pts.to_vec();
    p.sort();
    p.dedup();
    if p.len() < 3 {
        return p;
    }
    let mut h: Vec<IP> = vec![];
    for &q in &p {
        while h.len() >= 2 && orient_i(h[h.len() - 2], h[h.len() - 1], q) <= 0 {
            h.pop();
        }
        h.push(q);
    }
    let lo = h.len() + 1;
    for &q in p.iter().rev().skip(1) {
        while h.len() >= lo && orient_i(h[h.len() - 2], h[h.len() - 1], q) <= 0 {
            h.pop();
        }
        h.push(q);
    }
    h.pop();
    h
}

// ---------- validity predicates (domain filters and the C14 oracle) ----------

/// simple closed ring with non-zero area; vertices unclosed; consecutive vertices distinct;
/// collinear consecutive triples allowed only when the middle vertex is strictly between
pub fn simple_ring(r: &[IP]) -> bool {
    let n = r.len();
    if n < 3 {
        return false;
    }
    for i in 0..n {
        let (a, b) = (r[i], r[(i + 1) % n]);
        if a == b {
            return false;
        }
        for j in i + 1..n {
            let (c, d) = (r[j], r[(j + 1) % n]);
            let adjacent = j == i + 1 || (i == 0 && j == n - 1);
            if adjacent {
                // may share exactly the common vertex
                let (shared, o1, o2) = if j == i + 1 { (b, a, d) } else { (a, b, c) };
                if n == 3 && orient_i(a, b, if j == i + 1 { d } else { c }) == 0 {
                    return false;
                }
                if orient_i(o1, shared, o2) == 0 {
                    // collinear neighbours: they must point in opposite directions from shared
                    let dot = (o1.0 - shared.0) * (o2.0 - shared.0) + (o1.1 - shared.1) * (o2.1 - shared.1);
                    if dot >= 0 {
                        return false;
                    }
                }
            } else if segs_meet(a, b, c, d) {
                return false;
            }
        }
    }
    area2(r) != 0
}

/// simple polyline: consecutive vertices distinct, no self-intersection except possibly first==last (closed)
pub fn simple_polyline(l: &[IP]) -> bool {
    let n = l.len();
    if n < 2 {
        return false;
    }
    let closed = l[0] == l[n - 1];
    if closed {
        return n >= 4 && simple_ring(&l[..n - 1]);
    }
    for i in 0..n - 1 {
        if l[i] == l[i + 1] {
            return false;
        }
        for j in i + 1..n - 1 {
            let (a, b, c, d) = (l[i], l[i + 1], l[j], l[j + 1]);
            if j == i + 1 {
                if orient_i(a, b, d) == 0 {
                    let dot = (a.0 - b.0) * (d.0 - b.0) + (a.1 - b.1) * (d.1 - b.1);
                    if dot >= 0 {
                        return false;
                    }
                }
            } else if segs_meet(a, b, c, d) {
                return false;
            }
        }
    }
    true
}

/// the set of lattice-independent contact points between two rings: None if they cross or overlap
/// in more than isolated points; Some(list of touch points) otherwise.
pub fn ring_contacts(r: &[IP], s: &[IP]) -> Option<Vec<HP>> {
    let (n, m) = (r.len(), s.len());
    let mut pts: Vec<HP> = vec![];
    for i in 0..n {
        let (a, b) = (r[i], r[(i + 1) % n]);
        for j in 0..m {
            let (c, d) = (s[j], s[(j + 1) % m]);
            match seg_common(a, b, c, d) {
                Common::Nothing => {}
                Common::Point(p) => push_unique(&mut pts, p),
                Common::Overlap => return None,
            }
        }
    }
    Some(pts)
}

/// Is ring `inner` inside ring `outer` (closed region), touching only at isolated points, not crossing?
/// Both simple. Decided on the arrangement: every vertex/midpoint of inner is not outside outer,
/// and at least one sub-edge midpoint is strictly inside.
pub fn ring_inside(inner: &[IP], outer: &[IP]) -> bool {
    let contacts = match ring_contacts(inner, outer) {
        None => return false,
        Some(c) => c,
    };
    let n = inner.len();
    let mut segs: Vec<(IP, IP)> = (0..n).map(|i| (inner[i], inner[(i + 1) % n])).collect();
    let m = outer.len();
    segs.extend((0..m).map(|i| (outer[i], outer[(i + 1) % m])));
    let arr = arrangement(&segs, &[]);
    let _ = contacts;
    for q in arr.verts.iter().chain(arr.mids.iter()) {
        if ring_pos(inner, q) == 1 && ring_pos(outer, q) == 0 {
            return false;
        }
    }
    // no crossing: every face inside inner is inside outer
    for q in &arr.faces {
        if ring_pos(inner, q) == 2 && ring_pos(outer, q) != 2 {
            return false;
        }
    }
    true
}
/// rings have disjoint interiors and touch at most in isolated points (neither inside the other)
pub fn rings_disjoint_interiors(r: &[IP], s: &[IP]) -> bool {
    if ring_contacts(r, s).is_none() {
        return false;
    }
    let n = r.len();
    let mut segs: Vec<(IP, IP)> = (0..n).map(|i| (r[i], r[(i + 1) % n])).collect();
    let m = s.len();
    segs.extend((0..m).map(|i| (s[i], s[(i + 1) % m])));
    let arr = arrangement(&segs, &[]);
    for q in &arr.faces {
        if ring_pos(r, q) == 2 && ring_pos(s, q) == 2 {
            return false;
        }
    }
    true
}

/// OGC-valid polygon in the sense of C14's wording (no connectedness requirement):
/// rings simple with area, holes inside shell, rings meet only at isolated points, holes' interiors disjoint.
pub fn poly_valid_c14(p: &Poly) -> bool {
    if !simple_ring(&p.shell) {
        return false;
    }
    for h in &p.holes {
        if !simple_ring(h) || !ring_inside(h, &p.shell) {
            return false;
        }
    }
    for i in 0..p.holes.len() {
        for j in i + 1..p.holes.len() {
            if !rings_disjoint_interiors(&p.holes[i], &p.holes[j]) {
                return false;
            }
        }
    }
    true
}
/// Is the interior of a C14-valid polygon connected? The ring-touch graph (shell and holes as
/// nodes, one edge per distinct touch point) must be a forest.
pub fn poly_interior_connected(p: &Poly) -> bool {
    let rings: Vec<&Vec<IP>> = std::iter::once(&p.shell).chain(p.holes.iter()).collect();
    let k = rings.len();
    let mut parent: Vec<usize> = (0..k).collect();
    fn find(p: &mut Vec<usize>, x: usize) -> usize {
        if p[x] != x {
            let r = find(p, p[x]);
            p[x] = r;
        }
        p[x]
    }
    // touch points shared by several rings at the same location form one node in a bipartite
    // ring/point graph; connectedness of the interior <=> that bipartite graph is a forest
    let mut points: Vec<HP> = vec![];
    let mut edges: Vec<(usize, usize)> = vec![]; // (ring, point index)
    for i in 0..k {
        for j in i + 1..k {
            if let Some(c) = ring_contacts(rings[i], rings[j]) {
                for q in c {
                    let idx = match points.iter().position(|x| *x == q) {
                        Some(ix) => ix,
                        None => {
                            points.push(q);
                            points.len() - 1
                        }
                    };
                    if !edges.contains(&(i, idx)) {
                        edges.push((i, idx));
                    }
                    if !edges.contains(&(j, idx)) {
                        edges.push((j, idx));
                    }
                }
            }
        }
    }
    let np = points.len();
    parent.extend(k..k + np);
    for (r, pi) in edges {
        let (a, b) = (find(&mut parent, r), find(&mut parent, k + pi));
        if a == b {
            return false;
        }
        parent[a] = b;
    }
    true
}
pub fn poly_valid(p: &Poly) -> bool {
    poly_valid_c14(p) && poly_interior_connected(p)
}
/// two valid polygons: interiors disjoint, boundaries meet only at isolated points
pub fn polys_compatible(p: &Poly, q: &Poly) -> bool {
    let a = AG::Polys(vec![p.clone()]);
    let b = AG::Polys(vec![q.clone()]);
    let m = de9im(&a, &b);
    m[I][I] == -1 && m[B][B] <= 0 && m[I][B] == -1 && m[B][I] == -1
}
pub fn multipoly_valid(ps: &[Poly]) -> bool {
    ps.iter().all(poly_valid) && (0..ps.len()).all(|i| (i + 1..ps.len()).all(|j| polys_compatible(&ps[i], &ps[j])))
}

/// A MultiLineString that is OGC-simple as a whole: every member simple, members meet only at
/// their endpoints (boundary points of the members), and a closed member meets others only at... nothing.
pub fn mls_simple(ls: &[Vec<IP>]) -> bool {
    if !ls.iter().all(|l| simple_polyline(l)) {
        return false;
    }
    for i in 0..ls.len() {
        for j in i + 1..ls.len() {
            let (a, b) = (&ls[i], &ls[j]);
            for u in a.windows(2) {
                for v in b.windows(2) {
                    match seg_common(u[0], u[1], v[0], v[1]) {
                        Common::Nothing => {}
                        Common::Overlap => return false,
                        Common::Point(p) => {
                            let is_end = |l: &Vec<IP>| {
                                l[0] != l[l.len() - 1] && (HP::int(l[0]) == p || HP::int(l[l.len() - 1]) == p)
                            };
                            if !(is_end(a) && is_end(b)) {
                                return false;
                            }
                        }
                    }
                }
            }
        }
    }
    true
}

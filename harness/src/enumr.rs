//! Enumerators over small integer lattices. Everything is a complete enumeration in a fixed order
//! (simplest first), never a sample.
use crate::exact::*;

pub fn grid(n: i64) -> Vec<IP> {
    (0..n).flat_map(|x| (0..n).map(move |y| (x, y))).collect()
}
pub fn grid_xy(nx: i64, ny: i64) -> Vec<IP> {
    (0..nx).flat_map(|x| (0..ny).map(move |y| (x, y))).collect()
}

/// all simple rings (unclosed vertex lists) over pts with 3..=kmax vertices,
/// canonical start (least index) and direction (second index < last index)
pub fn rings_over(pts: &[IP], kmax: usize) -> Vec<Vec<IP>> {
    let mut out = vec![];
    fn rec(pts: &[IP], cur: &mut Vec<usize>, kmax: usize, out: &mut Vec<Vec<IP>>) {
        if cur.len() >= 3 && cur[1] < *cur.last().unwrap() {
            let r: Vec<IP> = cur.iter().map(|&i| pts[i]).collect();
            if simple_ring(&r) {
                out.push(r);
            }
        }
        if cur.len() == kmax {
            return;
        }
        for i in cur[0] + 1..pts.len() {
            if cur.contains(&i) {
                continue;
            }
            cur.push(i);
            rec(pts, cur, kmax, out);
            cur.pop();
        }
    }
    for s in 0..pts.len() {
        let mut cur = vec![s];
        rec(pts, &mut cur, kmax, &mut out);
    }
    out.sort_by_key(|r| r.len());
    out
}
pub fn rings(n: i64, kmax: usize) -> Vec<Vec<IP>> {
    rings_over(&grid(n), kmax)
}

/// all vertex sequences of exactly k vertices over pts (with repetition)
pub fn sequences(pts: &[IP], k: usize) -> Vec<Vec<IP>> {
    let mut out = vec![];
    fn rec(pts: &[IP], cur: &mut Vec<IP>, k: usize, out: &mut Vec<Vec<IP>>) {
        if cur.len() == k {
            out.push(cur.clone());
            return;
        }
        for &p in pts {
            cur.push(p);
            rec(pts, cur, k, out);
            cur.pop();
        }
    }
    let mut cur = vec![];
    rec(pts, &mut cur, k, &mut out);
    out
}
/// the idx-th sequence of length k over m symbols (mixed radix, first symbol most significant)
pub fn nth_sequence(m: usize, k: usize, mut idx: usize) -> Vec<usize> {
    let mut v = vec![0; k];
    for i in (0..k).rev() {
        v[i] = idx % m;
        idx /= m;
    }
    v
}

/// simple open polylines with exactly k distinct vertices, canonical direction (first < last)
pub fn polylines(pts: &[IP], k: usize) -> Vec<Vec<IP>> {
    let mut out = vec![];
    fn rec(pts: &[IP], cur: &mut Vec<IP>, k: usize, out: &mut Vec<Vec<IP>>) {
        if cur.len() == k {
            if cur[0] < cur[k - 1] && simple_polyline(cur) {
                out.push(cur.clone());
            }
            return;
        }
        for &p in pts {
            if cur.contains(&p) {
                continue;
            }
            cur.push(p);
            rec(pts, cur, k, out);
            cur.pop();
        }
    }
    let mut cur = vec![];
    rec(pts, &mut cur, k, &mut out);
    out
}

/// all subsets of size exactly k (as index-ascending lists)
pub fn subsets<T: Clone>(items: &[T], k: usize) -> Vec<Vec<T>> {
    let mut out = vec![];
    fn rec<T: Clone>(items: &[T], start: usize, k: usize, cur: &mut Vec<T>, out: &mut Vec<Vec<T>>) {
        if cur.len() == k {
            out.push(cur.clone());
            return;
        }
        for i in start..items.len() {
            cur.push(items[i].clone());
            rec(items, i + 1, k, cur, out);
            cur.pop();
        }
    }
    rec(items, 0, k, &mut vec![], &mut out);
    out
}

/// polygons with one hole: every shell from `shells` x every hole ring from `holes`
/// such that the result is a valid polygon (hole inside, touching at most at isolated points, interior connected)
pub fn polys_with_hole(shells: &[Vec<IP>], holes: &[Vec<IP>]) -> Vec<Poly> {
    let mut out = vec![];
    for s in shells {
        for h in holes {
            let p = Poly { shell: s.clone(), holes: vec![h.clone()] };
            if poly_valid(&p) {
                out.push(p);
            }
        }
    }
    out
}

pub fn close(r: &[IP]) -> Vec<IP> {
    let mut v = r.to_vec();
    if !v.is_empty() {
        v.push(r[0]);
    }
    v
}
pub fn rotate_ring(r: &[IP], k: usize) -> Vec<IP> {
    let n = r.len();
    (0..n).map(|i| r[(i + k) % n]).collect()
}
pub fn reverse_ring(r: &[IP]) -> Vec<IP> {
    let mut v = r.to_vec();
    v.reverse();
    v
}

//! Exploration engine: staged, indexed, exhaustive enumeration run in parallel shards; violation
//! signatures; known findings; evidence; replay.
use rayon::prelude::*;
use serde_json::{json, Map, Value};
use std::collections::{BTreeMap, BTreeSet};
use std::sync::atomic::{AtomicBool, AtomicU64, Ordering};
use std::time::Instant;

#[derive(Clone, Copy, PartialEq, Eq, Debug)]
pub enum Tier {
    Quick,
    Thorough,
}

pub struct Ctx {
    pub prop: String,
    pub tier: Tier,
    pub seed: u64,
    pub start: Instant,
    pub replay: Option<(String, usize)>,
    pub cap_s: f64,
}
impl Ctx {
    pub fn quick(&self) -> bool {
        self.tier == Tier::Quick
    }
    pub fn pick<T>(&self, q: T, t: T) -> T {
        if self.quick() {
            q
        } else {
            t
        }
    }
}

pub struct VRec {
    pub count: u64,
    pub idx: usize,
    pub stage: String,
    pub witness: Value,
}

#[derive(Default)]
pub struct Acc {
    pub evals: u64,
    pub classes: BTreeSet<String>,
    pub viols: BTreeMap<String, VRec>,
    pub counters: BTreeMap<String, u64>,
    pub samples: Vec<(usize, Value)>,
    pub sample_at: Vec<usize>,
    pub stage: String,
    pub maxf: BTreeMap<String, f64>,
}
impl Acc {
    pub fn class(&mut self, s: String) {
        self.classes.insert(s);
    }
    pub fn count(&mut self, k: &str, n: u64) {
        *self.counters.entry(k.to_string()).or_insert(0) += n;
    }
    /// track the largest observed value of a measured deviation (reported in the evidence)
    pub fn maxf(&mut self, k: &str, v: f64) {
        let e = self.maxf.entry(k.to_string()).or_insert(0.0);
        if v > *e {
            *e = v;
        }
    }
    pub fn viol(&mut self, sig: String, idx: usize, witness: impl FnOnce() -> Value) {
        let stage = self.stage.clone();
        match self.viols.get_mut(&sig) {
            Some(r) => {
                r.count += 1;
                if idx < r.idx {
                    r.idx = idx;
                    r.witness = witness();
                    r.stage = stage;
                }
            }
            None => {
                self.viols.insert(sig, VRec { count: 1, idx, stage, witness: witness() });
            }
        }
    }
    pub fn sample(&mut self, idx: usize, f: impl FnOnce() -> Value) {
        if self.sample_at.contains(&idx) {
            self.samples.push((idx, f()));
        }
    }
    fn merge(mut self, o: Acc) -> Acc {
        self.evals += o.evals;
        self.classes.extend(o.classes);
        for (k, v) in o.counters {
            *self.counters.entry(k).or_insert(0) += v;
        }
        for (k, v) in o.maxf {
            let e = self.maxf.entry(k).or_insert(0.0);
            if v > *e {
                *e = v;
            }
        }
        for (k, v) in o.viols {
            match self.viols.get_mut(&k) {
                Some(r) => {
                    r.count += v.count;
                    if (v.stage == r.stage && v.idx < r.idx) || (v.stage != r.stage && false) {
                        r.idx = v.idx;
                        r.witness = v.witness;
                    }
                }
                None => {
                    self.viols.insert(k, v);
                }
            }
        }
        self.samples.extend(o.samples);
        self
    }
}

pub struct StageInfo {
    pub name: String,
    pub n: usize,
    pub done: u64,
    pub capped: bool,
    pub wall_s: f64,
}

pub struct Run {
    pub ctx: Ctx,
    pub acc: Acc,
    pub stages: Vec<StageInfo>,
    pub rule: String,
    pub assumptions: Vec<String>,
    pub extra: Map<String, Value>,
    pub states: u64,
    pub transitions: u64,
    pub traces: u64,
    pub level: &'static str,
    pub any_capped: bool,
    pub distinct_override: Option<u64>,
}

/// run a subject call, turning a panic into Err(message)
pub fn guard<T>(f: impl FnOnce() -> T) -> Result<T, String> {
    match std::panic::catch_unwind(std::panic::AssertUnwindSafe(f)) {
        Ok(v) => Ok(v),
        Err(e) => Err(if let Some(s) = e.downcast_ref::<&str>() {
            s.to_string()
        } else if let Some(s) = e.downcast_ref::<String>() {
            s.clone()
        } else {
            "panic".to_string()
        }),
    }
}

impl Run {
    pub fn new(ctx: Ctx) -> Run {
        Run {
            ctx,
            acc: Acc::default(),
            stages: vec![],
            rule: String::new(),
            assumptions: vec![],
            extra: Map::new(),
            states: 0,
            transitions: 0,
            traces: 0,
            level: "model_checking",
            any_capped: false,
            distinct_override: None,
        }
    }
    pub fn over_budget(&self) -> bool {
        self.ctx.start.elapsed().as_secs_f64() > self.ctx.cap_s
    }
    /// Exhaustively run `f` on every index in 0..n (parallel shards, deterministic merge).
    /// In replay mode only the recorded index of the recorded stage is run.
    pub fn stage<F>(&mut self, name: &str, n: usize, f: F)
    where
        F: Fn(usize, &mut Acc) + Sync,
    {
        let t0 = Instant::now();
        if let Some((st, idx)) = &self.ctx.replay {
            if st == name {
                let mut a = Acc::default();
                a.stage = name.to_string();
                a.sample_at = vec![*idx];
                f(*idx, &mut a);
                // replay twice: the same case must give the same observations before a failure is trusted
                let mut b = Acc::default();
                b.stage = name.to_string();
                f(*idx, &mut b);
                let (ka, kb): (Vec<&String>, Vec<&String>) = (a.viols.keys().collect(), b.viols.keys().collect());
                if ka != kb {
                    panic!("replay of {} index {} is not deterministic: {:?} vs {:?}", name, idx, ka, kb);
                }
                println!("replayed stage {} index {} twice: identical observations ({} violation signature(s))", name, idx, ka.len());
                let acc = std::mem::take(&mut self.acc);
                self.acc = acc.merge(a);
                self.stages.push(StageInfo { name: name.into(), n, done: 1, capped: false, wall_s: 0.0 });
            }
            return;
        }
        if n == 0 {
            self.stages.push(StageInfo { name: name.into(), n, done: 0, capped: false, wall_s: 0.0 });
            return;
        }
        let stop = AtomicBool::new(false);
        let done = AtomicU64::new(0);
        let start = self.ctx.start;
        let cap = self.ctx.cap_s;
        let chunk = (n / 2048).clamp(1, 4096);
        let nchunks = (n + chunk - 1) / chunk;
        let sample_at = vec![0, n / 3, (2 * n) / 3, n - 1];
        let merged = (0..nchunks)
            .into_par_iter()
            .fold(
                || {
                    let mut a = Acc::default();
                    a.stage = name.to_string();
                    a.sample_at = sample_at.clone();
                    a
                },
                |mut a, ci| {
                    if stop.load(Ordering::Relaxed) {
                        return a;
                    }
                    if start.elapsed().as_secs_f64() > cap {
                        stop.store(true, Ordering::Relaxed);
                        return a;
                    }
                    let lo = ci * chunk;
                    let hi = (lo + chunk).min(n);
                    for i in lo..hi {
                        f(i, &mut a);
                    }
                    done.fetch_add((hi - lo) as u64, Ordering::Relaxed);
                    a
                },
            )
            .reduce(Acc::default, |a, b| a.merge(b));
        let capped = stop.load(Ordering::Relaxed);
        self.any_capped |= capped;
        let acc = std::mem::take(&mut self.acc);
        self.acc = acc.merge(merged);
        self.stages.push(StageInfo {
            name: name.into(),
            n,
            done: done.load(Ordering::Relaxed),
            capped,
            wall_s: t0.elapsed().as_secs_f64(),
        });
    }

    /// Write evidence, print findings, return the process exit code.
    pub fn finish(mut self) -> i32 {
        let prop = self.ctx.prop.clone();
        let known = load_known(&prop);
        let mut unlisted: Vec<(&String, &VRec)> = vec![];
        let mut listed: Vec<(&String, &VRec)> = vec![];
        for (sig, r) in &self.acc.viols {
            if known.iter().any(|k| k == sig) {
                listed.push((sig, r));
            } else {
                unlisted.push((sig, r));
            }
        }
        let replay_mode = self.ctx.replay.is_some();
        let replay_dir = std::env::var("VERIF_REPLAY_DIR").unwrap_or_else(|_| format!("{}/replays", verif_root()));
        let evidence_dir = std::env::var("VERIF_EVIDENCE_DIR").unwrap_or_else(|_| format!("{}/evidence", verif_root()));
        let _ = std::fs::create_dir_all(&replay_dir);
        let mut out_lines = vec![];
        for (sig, r) in &listed {
            out_lines.push(format!(
                "KNOWN-FINDING: property={} {} (x{}) e.g. {}",
                prop,
                sig,
                r.count,
                compact(&r.witness)
            ));
        }
        for (sig, r) in &unlisted {
            let h = fnv(sig);
            let path = format!("{}/{}-{:016x}.json", replay_dir, prop, h);
            let v = json!({"property": prop, "signature": sig, "stage": r.stage, "index": r.idx, "count": r.count,
                "tier": if self.ctx.quick() {"quick"} else {"thorough"}, "witness": r.witness});
            if !replay_mode {
                let _ = std::fs::write(&path, serde_json::to_string_pretty(&v).unwrap());
            }
            out_lines.push(format!("VIOLATION property={} replay={}", prop, path));
            out_lines.push(format!("  signature: {} (x{}) witness: {}", sig, r.count, compact(&r.witness)));
        }
        // stale known findings (listed but not observed) are reported informally
        for k in &known {
            if !self.acc.viols.contains_key(k) && !replay_mode {
                out_lines.push(format!("note: known finding not observed in this run/tier: {}", k));
            }
        }
        let wall = self.ctx.start.elapsed().as_secs_f64();
        let evaluations: u64 = self.acc.evals.max(self.stages.iter().map(|s| s.done).sum());
        let mut samples: Vec<Value> = vec![];
        self.acc.samples.sort_by_key(|s| s.0);
        for (_, s) in self.acc.samples.iter().take(12) {
            samples.push(s.clone());
        }
        if samples.is_empty() {
            samples.push(json!("no sample recorded"));
        }
        let stages: Vec<Value> = self
            .stages
            .iter()
            .map(|s| json!({"stage": s.name, "cases": s.n, "completed": s.done, "capped": s.capped, "wall_s": round3(s.wall_s)}))
            .collect();
        let cases_done: u64 = self.stages.iter().map(|s| s.done).sum();
        let mut cov = Map::new();
        cov.insert("evaluations".into(), json!(evaluations));
        cov.insert("distinct_nontrivial".into(), json!(self.distinct_override.unwrap_or(self.acc.classes.len() as u64)));
        cov.insert("rule".into(), json!(self.rule));
        cov.insert("samples".into(), json!(samples));
        cov.insert("exhaustive".into(), json!(!self.any_capped));
        cov.insert("states".into(), json!(if self.states > 0 { self.states } else { cases_done }));
        cov.insert("transitions".into(), json!(if self.transitions > 0 { self.transitions } else { evaluations }));
        cov.insert(
            "traces_validated_against_impl".into(),
            json!(if self.traces > 0 { self.traces } else { cases_done }),
        );
        cov.insert("stages".into(), json!(stages));
        cov.insert("counters".into(), json!(self.acc.counters));
        cov.insert("max_observed_deviation".into(), json!(self.acc.maxf));
        let cls: Vec<&String> = self.acc.classes.iter().take(40).collect();
        cov.insert("class_examples".into(), json!(cls));
        cov.insert("violation_signatures_unlisted".into(), json!(unlisted.iter().map(|x| x.0).collect::<Vec<_>>()));
        cov.insert("known_findings_observed".into(), json!(listed.iter().map(|x| x.0).collect::<Vec<_>>()));
        for (k, v) in std::mem::take(&mut self.extra) {
            cov.insert(k, v);
        }
        let ev = json!({
            "property_id": prop,
            "tier": if self.ctx.quick() {"quick"} else {"thorough"},
            "seed": self.ctx.seed,
            "level": self.level,
            "coverage": cov,
            "assumptions": self.assumptions,
            "wall_s": round3(wall),
            "violations": unlisted.len(),
        });
        if !replay_mode {
            let _ = std::fs::create_dir_all(&evidence_dir);
            std::fs::write(format!("{}/{}.json", evidence_dir, prop), serde_json::to_string_pretty(&ev).unwrap())
                .expect("write evidence");
        }
        for l in &out_lines {
            println!("{}", l);
        }
        println!(
            "{} {}: cases={} evaluations={} classes={} unlisted_violations={} known={} exhaustive={} wall={:.1}s",
            prop,
            if self.ctx.quick() { "quick" } else { "thorough" },
            cases_done,
            evaluations,
            self.acc.classes.len(),
            unlisted.len(),
            listed.len(),
            !self.any_capped,
            wall
        );
        for s in &self.stages {
            println!("  stage {:<28} n={:<10} done={:<10} {:.2}s{}", s.name, s.n, s.done, s.wall_s, if s.capped { " CAPPED" } else { "" });
        }
        if unlisted.is_empty() {
            0
        } else {
            1
        }
    }
}

fn round3(x: f64) -> f64 {
    (x * 1000.0).round() / 1000.0
}
pub fn compact(v: &Value) -> String {
    let s = v.to_string();
    if s.len() > 600 {
        format!("{}…", &s[..600])
    } else {
        s
    }
}
pub fn fnv(s: &str) -> u64 {
    let mut h: u64 = 0xcbf29ce484222325;
    for b in s.bytes() {
        h ^= b as u64;
        h = h.wrapping_mul(0x100000001b3);
    }
    h
}

/// root of the verification tree (the directory holding ./check); VERIF_ROOT is set by ./check
pub fn verif_root() -> String {
    std::env::var("VERIF_ROOT").unwrap_or_else(|_| "/verif".to_string())
}
/// signatures listed as known findings for this property in /verif/known_findings.json
pub fn load_known(prop: &str) -> Vec<String> {
    let txt = match std::fs::read_to_string(format!("{}/known_findings.json", verif_root())) {
        Ok(t) => t,
        Err(_) => return vec![],
    };
    let v: Value = serde_json::from_str(&txt).expect("known_findings.json must parse");
    let mut out = vec![];
    if let Some(a) = v.get("known").and_then(|k| k.as_array()) {
        for e in a {
            if e.get("property").and_then(|p| p.as_str()) == Some(prop) {
                if let Some(s) = e.get("signature").and_then(|s| s.as_str()) {
                    out.push(s.to_string());
                }
            }
        }
    }
    out
}

//! vcheck: bounded exhaustive exploration of georust/geo against exact reference models.
//! usage: vcheck <Cxx> [--tier quick|thorough] [--replay <file>]
mod bigf;
mod build;
mod engine;
mod enumr;
mod exact;
mod jts;
#[macro_use]
mod ops;
mod props;

use engine::{Ctx, Run, Tier};
use std::time::Instant;

fn main() {
    let args: Vec<String> = std::env::args().collect();
    if args.len() < 2 {
        eprintln!("usage: vcheck <Cxx> [--tier quick|thorough] [--replay file]");
        std::process::exit(2);
    }
    let prop = args[1].clone();
    let mut tier = match std::env::var("VERIF_TIER").as_deref() {
        Ok("thorough") => Tier::Thorough,
        _ => Tier::Quick,
    };
    let mut replay = None;
    let mut i = 2;
    while i < args.len() {
        match args[i].as_str() {
            "--tier" => {
                i += 1;
                tier = if args[i] == "thorough" { Tier::Thorough } else { Tier::Quick };
            }
            "--replay" => {
                i += 1;
                let txt = std::fs::read_to_string(&args[i]).unwrap_or_else(|e| {
                    eprintln!("cannot read replay file: {}", e);
                    std::process::exit(2)
                });
                let v: serde_json::Value = serde_json::from_str(&txt).expect("replay json");
                replay = Some((v["stage"].as_str().unwrap().to_string(), v["index"].as_u64().unwrap() as usize));
                if v["tier"].as_str() == Some("thorough") {
                    tier = Tier::Thorough;
                }
            }
            _ => {}
        }
        i += 1;
    }
    let seed = std::env::var("VERIF_SEED").ok().and_then(|s| s.parse::<u64>().ok()).unwrap_or(0);
    let cap_s = std::env::var("VERIF_CAP_S")
        .ok()
        .and_then(|s| s.parse::<f64>().ok())
        .unwrap_or(if tier == Tier::Quick { 50.0 } else { 5400.0 });
    // silence panic messages of caught subject panics; machinery panics still exit 2 via the wrapper below
    std::panic::set_hook(Box::new(|_| {}));
    let ctx = Ctx { prop: prop.clone(), tier, seed, start: Instant::now(), replay, cap_s };
    let run = Run::new(ctx);
    let res = std::panic::catch_unwind(std::panic::AssertUnwindSafe(|| props::dispatch(&prop, run)));
    match res {
        Ok(Some(code)) => std::process::exit(code),
        Ok(None) => {
            eprintln!("unknown property {}", prop);
            std::process::exit(2)
        }
        Err(e) => {
            let msg = if let Some(s) = e.downcast_ref::<&str>() {
                s.to_string()
            } else if let Some(s) = e.downcast_ref::<String>() {
                s.clone()
            } else {
                "?".into()
            };
            eprintln!("MACHINERY FAILURE (not a verdict): {}", msg);
            std::process::exit(2)
        }
    }
}

//! Dispatch from the Geometry enum to the *concrete* trait impls, so every hand-written impl is
//! reached (100 ordered type pairs per binary predicate).
use geo::Geometry;

#[macro_export]
macro_rules! with_geom {
    ($g:expr, $x:ident => $body:expr) => {
        match $g {
            geo::Geometry::Point($x) => $body,
            geo::Geometry::Line($x) => $body,
            geo::Geometry::LineString($x) => $body,
            geo::Geometry::Polygon($x) => $body,
            geo::Geometry::MultiPoint($x) => $body,
            geo::Geometry::MultiLineString($x) => $body,
            geo::Geometry::MultiPolygon($x) => $body,
            geo::Geometry::GeometryCollection($x) => $body,
            geo::Geometry::Rect($x) => $body,
            geo::Geometry::Triangle($x) => $body,
        }
    };
}

pub fn relate_concrete(a: &Geometry<f64>, b: &Geometry<f64>) -> String {
    use geo::Relate;
    let m = with_geom!(a, x => with_geom!(b, y => x.relate(y)));
    im_string(&m)
}
pub fn relate_enum(a: &Geometry<f64>, b: &Geometry<f64>) -> String {
    use geo::Relate;
    im_string(&a.relate(b))
}
pub fn im_string(m: &geo::relate::IntersectionMatrix) -> String {
    // Debug prints IntersectionMatrix(FF2FF1212)
    let s = format!("{:?}", m);
    s.trim_start_matches("IntersectionMatrix(").trim_end_matches(')').to_string()
}
pub fn intersects_concrete(a: &Geometry<f64>, b: &Geometry<f64>) -> bool {
    use geo::Intersects;
    with_geom!(a, x => with_geom!(b, y => x.intersects(y)))
}
pub fn contains_concrete(a: &Geometry<f64>, b: &Geometry<f64>) -> bool {
    use geo::Contains;
    with_geom!(a, x => with_geom!(b, y => x.contains(y)))
}
pub fn within_concrete(a: &Geometry<f64>, b: &Geometry<f64>) -> bool {
    use geo::Within;
    with_geom!(a, x => with_geom!(b, y => x.is_within(y)))
}
pub fn intersects_enum(a: &Geometry<f64>, b: &Geometry<f64>) -> bool {
    use geo::Intersects;
    a.intersects(b)
}
pub fn contains_enum(a: &Geometry<f64>, b: &Geometry<f64>) -> bool {
    use geo::Contains;
    a.contains(b)
}
pub fn distance_concrete(a: &Geometry<f64>, b: &Geometry<f64>) -> f64 {
    use geo::{Distance, Euclidean};
    with_geom!(a, x => with_geom!(b, y => Euclidean.distance(x, y)))
}
/// the deprecated `EuclideanDistance` trait: a second set of 100 concrete impls for the same quantity
#[allow(deprecated)]
pub fn distance_legacy(a: &Geometry<f64>, b: &Geometry<f64>) -> f64 {
    use geo::EuclideanDistance;
    with_geom!(a, x => with_geom!(b, y => x.euclidean_distance(y)))
}
pub fn distance_enum(a: &Geometry<f64>, b: &Geometry<f64>) -> f64 {
    use geo::{Distance, Euclidean};
    Euclidean.distance(a, b)
}

// ---- the f32 instantiation of the same impls (lattice coordinates are exact in f32) ----
pub fn to_f32(g: &Geometry<f64>) -> Geometry<f32> {
    // rebuilt type by type (geo's map_coords would re-normalise a Triangle's corner order)
    crate::build::map_geom_g(g, &|c| geo::Coord { x: c.x as f32, y: c.y as f32 })
}
pub fn relate_f32(a: &Geometry<f32>, b: &Geometry<f32>) -> String {
    use geo::Relate;
    let m = with_geom!(a, x => with_geom!(b, y => x.relate(y)));
    im_string(&m)
}
pub fn intersects_f32(a: &Geometry<f32>, b: &Geometry<f32>) -> bool {
    use geo::Intersects;
    with_geom!(a, x => with_geom!(b, y => x.intersects(y)))
}
pub fn contains_f32(a: &Geometry<f32>, b: &Geometry<f32>) -> bool {
    use geo::Contains;
    with_geom!(a, x => with_geom!(b, y => x.contains(y)))
}
pub fn within_f32(a: &Geometry<f32>, b: &Geometry<f32>) -> bool {
    use geo::Within;
    with_geom!(a, x => with_geom!(b, y => x.is_within(y)))
}
pub fn distance_f32(a: &Geometry<f32>, b: &Geometry<f32>) -> f32 {
    use geo::{Distance, Euclidean};
    with_geom!(a, x => with_geom!(b, y => Euclidean.distance(x, y)))
}

// ---- autoref-specialisation probes: call the impl when it exists, report None when it does not ----
pub struct P<'a, A, B>(pub &'a A, pub &'a B);
pub trait YesI {
    fn go_i(&self) -> Option<bool>;
}
pub trait NoI {
    fn go_i(&self) -> Option<bool>;
}
impl<'a, A: geo::Intersects<B>, B> YesI for P<'a, A, B> {
    fn go_i(&self) -> Option<bool> {
        Some(self.0.intersects(self.1))
    }
}
impl<'a, A, B> NoI for &P<'a, A, B> {
    fn go_i(&self) -> Option<bool> {
        None
    }
}
pub trait YesC {
    fn go_c(&self) -> Option<bool>;
}
pub trait NoC {
    fn go_c(&self) -> Option<bool>;
}
impl<'a, A: geo::Contains<B>, B> YesC for P<'a, A, B> {
    fn go_c(&self) -> Option<bool> {
        Some(self.0.contains(self.1))
    }
}
impl<'a, A, B> NoC for &P<'a, A, B> {
    fn go_c(&self) -> Option<bool> {
        None
    }
}

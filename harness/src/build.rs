//! Concrete geo geometries built from abstract point-set descriptions, in every representation.
use crate::enumr::*;
use crate::exact::*;
use geo::{
    Coord, Geometry, GeometryCollection, Line, LineString, MultiLineString, MultiPoint, MultiPolygon, Point, Polygon,
    Rect, Triangle,
};

pub fn c(p: IP) -> Coord<f64> {
    Coord { x: p.0 as f64, y: p.1 as f64 }
}
pub fn ls(v: &[IP]) -> LineString<f64> {
    LineString::new(v.iter().map(|&p| c(p)).collect())
}
pub fn ring_ls(r: &[IP]) -> LineString<f64> {
    ls(&close(r))
}
pub fn poly(p: &Poly) -> Polygon<f64> {
    Polygon::new(ring_ls(&p.shell), p.holes.iter().map(|h| ring_ls(h)).collect())
}
pub fn tname(g: &Geometry<f64>) -> &'static str {
    match g {
        Geometry::Point(_) => "Point",
        Geometry::Line(_) => "Line",
        Geometry::LineString(_) => "LineString",
        Geometry::Polygon(_) => "Polygon",
        Geometry::MultiPoint(_) => "MultiPoint",
        Geometry::MultiLineString(_) => "MultiLineString",
        Geometry::MultiPolygon(_) => "MultiPolygon",
        Geometry::GeometryCollection(_) => "GeometryCollection",
        Geometry::Rect(_) => "Rect",
        Geometry::Triangle(_) => "Triangle",
    }
}

#[derive(Clone, Debug)]
pub struct Shape {
    pub ag: AG,
    pub g: Geometry<f64>,
    pub fam: &'static str,
}
impl Shape {
    pub fn new(ag: AG, g: Geometry<f64>, fam: &'static str) -> Shape {
        Shape { ag, g, fam }
    }
    pub fn ty(&self) -> &'static str {
        tname(&self.g)
    }
    pub fn wkt(&self) -> String {
        format!("{:?}", self.g)
    }
}

/// the natural concrete form of an abstract geometry
pub fn natural(ag: &AG) -> Geometry<f64> {
    match ag {
        AG::Pts(p) if p.len() == 1 => Geometry::Point(Point(c(p[0]))),
        AG::Pts(p) => Geometry::MultiPoint(MultiPoint(p.iter().map(|&q| Point(c(q))).collect())),
        AG::Lines(l) if l.len() == 1 => Geometry::LineString(ls(&l[0])),
        AG::Lines(l) => Geometry::MultiLineString(MultiLineString(l.iter().map(|x| ls(x)).collect())),
        AG::Polys(p) if p.len() == 1 => Geometry::Polygon(poly(&p[0])),
        AG::Polys(p) => Geometry::MultiPolygon(MultiPolygon(p.iter().map(poly).collect())),
    }
}

fn is_axis_rect(r: &[IP]) -> Option<(IP, IP)> {
    if r.len() != 4 {
        return None;
    }
    let xs: Vec<i64> = r.iter().map(|p| p.0).collect();
    let ys: Vec<i64> = r.iter().map(|p| p.1).collect();
    let (x0, x1, y0, y1) =
        (*xs.iter().min().unwrap(), *xs.iter().max().unwrap(), *ys.iter().min().unwrap(), *ys.iter().max().unwrap());
    if x0 == x1 || y0 == y1 {
        return None;
    }
    let mut corners = vec![(x0, y0), (x1, y0), (x1, y1), (x0, y1)];
    let mut rr = r.to_vec();
    corners.sort();
    rr.sort();
    if corners == rr && simple_ring(r) {
        Some(((x0, y0), (x1, y1)))
    } else {
        None
    }
}

/// every representation of the same point set (tag, geometry). `full`: all ring rotations, else a few.
pub fn variants(ag: &AG, full: bool) -> Vec<(String, Geometry<f64>)> {
    let mut out: Vec<(String, Geometry<f64>)> = vec![];
    let wrap = |g: Geometry<f64>| Geometry::GeometryCollection(GeometryCollection(vec![g]));
    match ag {
        AG::Pts(p) => {
            if p.len() == 1 {
                out.push(("Point".into(), Geometry::Point(Point(c(p[0])))));
            }
            out.push(("MultiPoint".into(), Geometry::MultiPoint(MultiPoint(p.iter().map(|&q| Point(c(q))).collect()))));
            if p.len() > 1 {
                let mut r = p.clone();
                r.reverse();
                out.push((
                    "MultiPoint/rev".into(),
                    Geometry::MultiPoint(MultiPoint(r.iter().map(|&q| Point(c(q))).collect())),
                ));
                out.push((
                    "GC[points]".into(),
                    Geometry::GeometryCollection(GeometryCollection(
                        p.iter().map(|&q| Geometry::Point(Point(c(q)))).collect(),
                    )),
                ));
            }
        }
        AG::Lines(l) => {
            if l.len() == 1 {
                let v = &l[0];
                if v.len() == 2 {
                    out.push(("Line".into(), Geometry::Line(Line::new(c(v[0]), c(v[1])))));
                    out.push(("Line/rev".into(), Geometry::Line(Line::new(c(v[1]), c(v[0])))));
                }
                out.push(("LineString".into(), Geometry::LineString(ls(v))));
                let mut r = v.clone();
                r.reverse();
                out.push(("LineString/rev".into(), Geometry::LineString(ls(&r))));
                if v.len() > 3 && v[0] == v[v.len() - 1] {
                    // closed: rotate start
                    let open = &v[..v.len() - 1];
                    let ks: Vec<usize> = if full { (1..open.len()).collect() } else { vec![1] };
                    for k in ks {
                        out.push((format!("LineString/rot{}", k), Geometry::LineString(ring_ls(&rotate_ring(open, k)))));
                    }
                }
            }
            out.push((
                "MultiLineString".into(),
                Geometry::MultiLineString(MultiLineString(l.iter().map(|x| ls(x)).collect())),
            ));
            if l.len() > 1 {
                let mut r: Vec<Vec<IP>> = l.clone();
                r.reverse();
                out.push((
                    "MultiLineString/rev".into(),
                    Geometry::MultiLineString(MultiLineString(r.iter().map(|x| ls(x)).collect())),
                ));
            }
        }
        AG::Polys(ps) => {
            if ps.len() == 1 {
                let p = &ps[0];
                out.push(("Polygon".into(), Geometry::Polygon(poly(p))));
                let rev = Poly { shell: reverse_ring(&p.shell), holes: p.holes.iter().map(|h| reverse_ring(h)).collect() };
                out.push(("Polygon/rev".into(), Geometry::Polygon(poly(&rev))));
                let ks: Vec<usize> = if full { (1..p.shell.len()).collect() } else { vec![1, p.shell.len() - 1] };
                for k in ks {
                    let q = Poly { shell: rotate_ring(&p.shell, k), holes: p.holes.clone() };
                    out.push((format!("Polygon/rot{}", k), Geometry::Polygon(poly(&q))));
                }
                if !p.holes.is_empty() {
                    let q = Poly {
                        shell: p.shell.clone(),
                        holes: p.holes.iter().rev().map(|h| rotate_ring(&reverse_ring(h), 1)).collect(),
                    };
                    out.push(("Polygon/holes-rev-rot".into(), Geometry::Polygon(poly(&q))));
                }
                // every ring written from its lexicographically least vertex with the closing coordinate repeated (.., p0, p0), in both directions:
                // repeated coordinates do not change the point set
                {
                    let dup = |r: &[IP]| -> LineString<f64> {
                        let k = (0..r.len()).min_by_key(|&i| r[i]).unwrap();
                        let mut v = close(&rotate_ring(r, k));
                        let first = v[0];
                        v.push(first);
                        ls(&v)
                    };
                    out.push(("Polygon/least-start-dup-close".into(), Geometry::Polygon(Polygon::new(dup(&p.shell), p.holes.iter().map(|h| dup(h)).collect()))));
                    out.push((
                        "Polygon/rev-least-start-dup-close".into(),
                        Geometry::Polygon(Polygon::new(dup(&reverse_ring(&p.shell)), p.holes.iter().map(|h| dup(&reverse_ring(h))).collect())),
                    ));
                }
                if p.holes.is_empty() {
                    if let Some((lo, hi)) = is_axis_rect(&p.shell) {
                        out.push(("Rect".into(), Geometry::Rect(Rect::new(c(lo), c(hi)))));
                        out.push(("Rect/swapped".into(), Geometry::Rect(Rect::new(c((hi.0, lo.1)), c((lo.0, hi.1))))));
                    }
                    if p.shell.len() == 3 {
                        let s = &p.shell;
                        for (i, perm) in [[0, 1, 2], [1, 2, 0], [2, 0, 1], [0, 2, 1], [2, 1, 0], [1, 0, 2]].iter().enumerate() {
                            // tuple constructor: Triangle::new would re-order to CCW
                            out.push((
                                format!("Triangle/{}", i),
                                Geometry::Triangle(Triangle(c(s[perm[0]]), c(s[perm[1]]), c(s[perm[2]]))),
                            ));
                        }
                    }
                }
            }
            out.push(("MultiPolygon".into(), Geometry::MultiPolygon(MultiPolygon(ps.iter().map(poly).collect()))));
            if ps.len() > 1 {
                out.push((
                    "MultiPolygon/rev".into(),
                    Geometry::MultiPolygon(MultiPolygon(ps.iter().rev().map(poly).collect())),
                ));
                out.push((
                    "GC[polys]".into(),
                    Geometry::GeometryCollection(GeometryCollection(
                        ps.iter().map(|p| Geometry::Polygon(poly(p))).collect(),
                    )),
                ));
            }
        }
    }
    let n = out.len();
    for i in 0..n.min(2) {
        let (t, g) = out[i].clone();
        out.push((format!("GC[{}]", t), wrap(g)));
    }
    // the same coordinates with zeros written as -0.0 (every one / every other one): -0.0 == 0.0, the point set is the same
    if n > 0 {
        let (t, g) = out[0].clone();
        out.push((format!("{}/negzero", t), neg_zeros(&g, 0)));
        out.push((format!("{}/negzero-alternating", t), neg_zeros(&g, 1)));
    }
    out
}

/// `g` with zero coordinates written as -0.0: pattern 0 = every zero, 1 = every other zero (in traversal order)
pub fn neg_zeros(g: &Geometry<f64>, pattern: usize) -> Geometry<f64> {
    let k = std::cell::Cell::new(0usize);
    let nz = |v: f64| -> f64 {
        if v == 0.0 {
            k.set(k.get() + 1);
            if pattern == 0 || k.get() % 2 == 1 {
                -0.0
            } else {
                0.0
            }
        } else {
            v
        }
    };
    map_geom_g(g, &|c| Coord { x: nz(c.x), y: nz(c.y) })
}

/// The families of DESIGN.md §3. `level` 0 = smallest (quick), larger = thorough.
pub struct Families {
    pub shapes: Vec<Shape>,
}

fn push(v: &mut Vec<Shape>, ag: AG, g: Geometry<f64>, fam: &'static str) {
    v.push(Shape::new(ag, g, fam));
}

pub struct FamCfg {
    pub n: i64,         // lattice size for points/lines/rings
    pub ring_k: usize,  // max ring vertices
    pub ls_k: usize,    // max open polyline vertices
    pub mpt_m: usize,   // max multipoint size
    pub mls: usize,     // 0 none, 2 = pairs, 3 = triples
    pub mpg: bool,      // pairs of polygons
    pub pgh: bool,      // polygons with holes (G4 window)
    pub gc: bool,
    pub stride: usize,  // take every stride-th member of the LS/PG/PGH families (1 = all)
    pub mls_stride: usize, // stride for the MLS2 family
    pub mpg_stride: usize,
    pub mls3_stride: usize,
}

pub fn families(cfg: &FamCfg) -> Vec<Shape> {
    let mut v: Vec<Shape> = vec![];
    let g = grid(cfg.n);
    // PT
    for &p in &g {
        push(&mut v, AG::Pts(vec![p]), Geometry::Point(Point(c(p))), "PT");
    }
    // LN
    for &a in &g {
        for &b in &g {
            if a != b {
                push(&mut v, AG::Lines(vec![vec![a, b]]), Geometry::Line(Line::new(c(a), c(b))), "LN");
            }
        }
    }
    // LS open, 3..=ls_k vertices
    let mut open: Vec<Vec<IP>> = vec![];
    for k in 3..=cfg.ls_k {
        for l in polylines(&g, k).into_iter().step_by(cfg.stride) {
            push(&mut v, AG::Lines(vec![l.clone()]), Geometry::LineString(ls(&l)), "LS");
            open.push(l);
        }
    }
    // PG and closed LS
    let rs = rings(cfg.n, cfg.ring_k);
    for r in rs.iter().step_by(cfg.stride) {
        let p = Poly { shell: r.clone(), holes: vec![] };
        push(&mut v, AG::Polys(vec![p.clone()]), Geometry::Polygon(poly(&p)), "PG");
    }
    for r in rs.iter().filter(|r| r.len() <= 4).step_by(cfg.stride) {
        push(&mut v, AG::Lines(vec![close(r)]), Geometry::LineString(ring_ls(r)), "LSc");
    }
    // RC, TR
    for &a in &g {
        for &b in &g {
            if a.0 < b.0 && a.1 < b.1 {
                let r = vec![a, (b.0, a.1), b, (a.0, b.1)];
                push(
                    &mut v,
                    AG::Polys(vec![Poly { shell: r, holes: vec![] }]),
                    Geometry::Rect(Rect::new(c(a), c(b))),
                    "RC",
                );
            }
        }
    }
    for r in rs.iter().filter(|r| r.len() == 3) {
        push(
            &mut v,
            AG::Polys(vec![Poly { shell: r.clone(), holes: vec![] }]),
            Geometry::Triangle(Triangle(c(r[0]), c(r[1]), c(r[2]))),
            "TR",
        );
    }
    // MPT
    for m in 2..=cfg.mpt_m {
        for s in subsets(&g, m) {
            push(
                &mut v,
                AG::Pts(s.clone()),
                Geometry::MultiPoint(MultiPoint(s.iter().map(|&q| Point(c(q))).collect())),
                "MPT",
            );
        }
    }
    // MLS: sets of 2 (3) simple members that are simple as a whole
    if cfg.mls >= 2 {
        let mut members: Vec<Vec<IP>> = vec![];
        for &a in &g {
            for &b in &g {
                if a < b {
                    members.push(vec![a, b]);
                }
            }
        }
        if cfg.n <= 3 {
            members.extend(polylines(&g, 3));
            members.extend(rs.iter().filter(|r| r.len() == 3).map(|r| close(r)));
        }
        let nm = members.len();
        let mut count = 0usize;
        for i in 0..nm {
            for j in i + 1..nm {
                let pair = vec![members[i].clone(), members[j].clone()];
                if mls_simple(&pair) {
                    count += 1;
                    if count % cfg.mls_stride == 0 {
                        push(
                            &mut v,
                            AG::Lines(pair.clone()),
                            Geometry::MultiLineString(MultiLineString(pair.iter().map(|x| ls(x)).collect())),
                            "MLS2",
                        );
                    }
                }
            }
        }
        if cfg.mls >= 3 {
            // triples of plain segments (shared endpoints by 2 and 3 members included)
            let segs: Vec<Vec<IP>> = members.iter().filter(|m| m.len() == 2).cloned().collect();
            let ns = segs.len();
            let mut cnt = 0usize;
            for i in 0..ns {
                for j in i + 1..ns {
                    for k in j + 1..ns {
                        let t = vec![segs[i].clone(), segs[j].clone(), segs[k].clone()];
                        // keep connected-ish triples: at least two members share an endpoint
                        let share = |a: &Vec<IP>, b: &Vec<IP>| a.iter().any(|p| b.contains(p));
                        let sh = share(&t[0], &t[1]) as u8 + share(&t[0], &t[2]) as u8 + share(&t[1], &t[2]) as u8;
                        if sh >= 2 && mls_simple(&t) {
                            cnt += 1;
                            if cnt % cfg.mls3_stride == 0 {
                                push(
                                    &mut v,
                                    AG::Lines(t.clone()),
                                    Geometry::MultiLineString(MultiLineString(t.iter().map(|x| ls(x)).collect())),
                                    "MLS3",
                                );
                            }
                        }
                    }
                }
            }
        }
    }
    // MPG: pairs of small polygons with compatible (disjoint-interior, point-touching) members
    if cfg.mpg {
        let small: Vec<&Vec<IP>> = rs.iter().filter(|r| r.len() <= 4).collect();
        let mut cnt = 0usize;
        for i in 0..small.len() {
            for j in i + 1..small.len() {
                let (p, q) =
                    (Poly { shell: small[i].clone(), holes: vec![] }, Poly { shell: small[j].clone(), holes: vec![] });
                if polys_compatible(&p, &q) {
                    cnt += 1;
                    if cnt % cfg.mpg_stride == 0 {
                        push(
                            &mut v,
                            AG::Polys(vec![p.clone(), q.clone()]),
                            Geometry::MultiPolygon(MultiPolygon(vec![poly(&p), poly(&q)])),
                            "MPG",
                        );
                    }
                }
            }
        }
    }
    // PGH: shells on a 4x4 window with a hole
    if cfg.pgh {
        let g4 = grid(4);
        let shells: Vec<Vec<IP>> = vec![
            vec![(0, 0), (3, 0), (3, 3), (0, 3)],
            vec![(0, 0), (3, 0), (0, 3)],
            vec![(0, 0), (3, 1), (2, 3), (0, 2)],
            vec![(0, 0), (3, 0), (3, 3), (1, 1), (0, 3)],
        ];
        let holes = rings_over(&g4, 3);
        let mut holes4 = rings_over(&g4, 4);
        holes4.retain(|r| r.len() == 4);
        let mut cnt = 0usize;
        for p in polys_with_hole(&shells, &holes).into_iter().chain(polys_with_hole(&shells[..1], &holes4)) {
            cnt += 1;
            if cnt % cfg.stride == 0 {
                push(&mut v, AG::Polys(vec![p.clone()]), Geometry::Polygon(poly(&p)), "PGH");
            }
        }
    }
    // GC: collections of pairwise disjoint members of one dimension, nested one level, with empties
    if cfg.gc {
        let gcw = |m: Vec<Geometry<f64>>| Geometry::GeometryCollection(GeometryCollection(m));
        // points
        for s in subsets(&g, 2).into_iter().step_by(3) {
            let members = vec![Geometry::Point(Point(c(s[0]))), gcw(vec![Geometry::Point(Point(c(s[1])))])];
            push(&mut v, AG::Pts(s.clone()), gcw(members), "GCpt");
        }
        // disjoint lines
        let mut segs: Vec<Vec<IP>> = vec![];
        for &a in &g {
            for &b in &g {
                if a < b {
                    segs.push(vec![a, b]);
                }
            }
        }
        let mut cnt = 0;
        for i in 0..segs.len() {
            for j in i + 1..segs.len() {
                if !segs_meet(segs[i][0], segs[i][1], segs[j][0], segs[j][1]) {
                    cnt += 1;
                    if cnt % 3 != 0 {
                        continue;
                    }
                    let members = vec![
                        Geometry::Line(Line::new(c(segs[i][0]), c(segs[i][1]))),
                        Geometry::LineString(ls(&segs[j])),
                        Geometry::LineString(LineString::new(vec![])),
                    ];
                    push(&mut v, AG::Lines(vec![segs[i].clone(), segs[j].clone()]), gcw(members), "GCln");
                }
            }
        }
        // disjoint polygons
        let small: Vec<&Vec<IP>> = rs.iter().filter(|r| r.len() <= 4).collect();
        let mut cnt = 0;
        for i in 0..small.len() {
            for j in i + 1..small.len() {
                let (p, q) =
                    (Poly { shell: small[i].clone(), holes: vec![] }, Poly { shell: small[j].clone(), holes: vec![] });
                let m = de9im(&AG::Polys(vec![p.clone()]), &AG::Polys(vec![q.clone()]));
                if mstr(&m).starts_with("FF") && m[B][I] == -1 && m[B][B] == -1 {
                    cnt += 1;
                    if cnt % 2 != 0 {
                        continue;
                    }
                    let members = vec![Geometry::Polygon(poly(&p)), gcw(vec![Geometry::Polygon(poly(&q))])];
                    push(&mut v, AG::Polys(vec![p, q]), gcw(members), "GCpg");
                }
            }
        }
        // GCmx: members of one dimension but of different concrete types, in both orders (the per-member accumulators of
        // coordinate_position / dimensions / relate must not depend on which member type comes last)
        let nat_pg = |r: &Vec<IP>| -> Geometry<f64> {
            if r.len() == 3 {
                Geometry::Triangle(Triangle(c(r[0]), c(r[1]), c(r[2])))
            } else if let Some((a, b)) = is_axis_rect(r) {
                Geometry::Rect(Rect::new(c(a), c(b)))
            } else {
                Geometry::Polygon(poly(&Poly { shell: r.clone(), holes: vec![] }))
            }
        };
        let mut cnt = 0;
        for i in 0..small.len() {
            for j in i + 1..small.len() {
                let special = |r: &Vec<IP>| r.len() == 3 || is_axis_rect(r).is_some();
                if special(small[i]) == special(small[j]) && cnt % 5 != 0 {
                    // same flavour on both sides: keep a fifth of them
                    cnt += 1;
                    continue;
                }
                let (p, q) =
                    (Poly { shell: small[i].clone(), holes: vec![] }, Poly { shell: small[j].clone(), holes: vec![] });
                let m = de9im(&AG::Polys(vec![p.clone()]), &AG::Polys(vec![q.clone()]));
                if mstr(&m).starts_with("FF") && m[B][I] == -1 && m[B][B] == -1 {
                    cnt += 1;
                    if cnt % 7 != 0 {
                        continue;
                    }
                    let (gp, gq) = (nat_pg(small[i]), nat_pg(small[j]));
                    let gq2 = if cnt % 2 == 0 { Geometry::MultiPolygon(MultiPolygon(vec![poly(&q)])) } else { gq.clone() };
                    push(&mut v, AG::Polys(vec![p.clone(), q.clone()]), gcw(vec![gp.clone(), gq2.clone()]), "GCmx");
                    push(&mut v, AG::Polys(vec![q.clone(), p.clone()]), gcw(vec![gq, gp]), "GCmx");
                }
            }
        }
        let mut cnt = 0;
        for i in 0..segs.len() {
            for j in i + 1..segs.len() {
                if !segs_meet(segs[i][0], segs[i][1], segs[j][0], segs[j][1]) {
                    cnt += 1;
                    if cnt % 11 != 0 {
                        continue;
                    }
                    let a = Geometry::MultiLineString(MultiLineString(vec![ls(&segs[i])]));
                    let b = Geometry::Line(Line::new(c(segs[j][1]), c(segs[j][0])));
                    let rj = vec![segs[j][1], segs[j][0]]; // the abstract description follows the concrete coordinate order
                    push(&mut v, AG::Lines(vec![segs[i].clone(), rj.clone()]), gcw(vec![a.clone(), b.clone()]), "GCmx");
                    push(&mut v, AG::Lines(vec![rj, segs[i].clone()]), gcw(vec![b, a]), "GCmx");
                }
            }
        }
        for s in subsets(&g, 3).into_iter().step_by(5) {
            let a = Geometry::MultiPoint(MultiPoint(vec![Point(c(s[0])), Point(c(s[1]))]));
            let b = Geometry::Point(Point(c(s[2])));
            push(&mut v, AG::Pts(s.clone()), gcw(vec![a.clone(), b.clone()]), "GCmx");
            push(&mut v, AG::Pts(s.clone()), gcw(vec![b, a]), "GCmx");
        }
        // NEST: containers that hold the whole 3x3 window strictly inside (no boundary contact), one per areal type, and a frame whose hole
        // holds it: every other shape of the families is strictly nested in them (containment without contact, nested envelopes)
        let pent: Vec<IP> = vec![(-1, -1), (3, -1), (4, 1), (3, 3), (-1, 3)];
        let bigtri: Vec<IP> = vec![(-2, -1), (6, -1), (-2, 7)];
        let sq = |lo: i64, hi: i64| -> Vec<IP> { vec![(lo, lo), (hi, lo), (hi, hi), (lo, hi)] };
        let far: Vec<IP> = vec![(10, 10), (12, 10), (10, 12)];
        let pl = |r: &Vec<IP>| Poly { shell: r.clone(), holes: vec![] };
        push(&mut v, AG::Polys(vec![pl(&sq(-1, 3))]), Geometry::Rect(Rect::new(c((-1, -1)), c((3, 3)))), "NEST");
        push(&mut v, AG::Polys(vec![pl(&bigtri)]), Geometry::Triangle(Triangle(c(bigtri[0]), c(bigtri[1]), c(bigtri[2]))), "NEST");
        push(&mut v, AG::Polys(vec![pl(&pent)]), Geometry::Polygon(poly(&pl(&pent))), "NEST");
        let frame = Poly { shell: sq(-3, 5), holes: vec![sq(-1, 3)] };
        push(&mut v, AG::Polys(vec![frame.clone()]), Geometry::Polygon(poly(&frame)), "NEST");
        push(&mut v, AG::Polys(vec![pl(&pent), pl(&far)]), Geometry::MultiPolygon(MultiPolygon(vec![poly(&pl(&pent)), poly(&pl(&far))])), "NEST");
        push(&mut v, AG::Polys(vec![pl(&sq(-1, 3))]), gcw(vec![Geometry::Rect(Rect::new(c((-1, -1)), c((3, 3))))]), "NEST");
        push(&mut v, AG::Polys(vec![pl(&far), pl(&bigtri)]), gcw(vec![Geometry::Polygon(poly(&pl(&far))), Geometry::Triangle(Triangle(c(bigtri[0]), c(bigtri[1]), c(bigtri[2])))]), "NEST");
        // EMPTYMEM: Multi* with an empty member first, in the middle or last (the point set is that of the other members)
        let t1: Vec<IP> = vec![(0, 0), (1, 0), (0, 1)];
        let t2: Vec<IP> = vec![(1, 1), (2, 1), (2, 2), (1, 2)];
        let empty_pg = Polygon::new(LineString::new(vec![]), vec![]);
        for k in 0..3usize {
            let mut m = vec![poly(&pl(&t1)), poly(&pl(&t2))];
            m.insert(k, empty_pg.clone());
            push(&mut v, AG::Polys(vec![pl(&t1), pl(&t2)]), Geometry::MultiPolygon(MultiPolygon(m)), "EMPTYMEM");
            let (l1, l2): (Vec<IP>, Vec<IP>) = (vec![(0, 0), (2, 1)], vec![(0, 2), (1, 2), (2, 2)]);
            let mut ml = vec![ls(&l1), ls(&l2)];
            ml.insert(k, LineString::new(vec![]));
            push(&mut v, AG::Lines(vec![l1, l2]), Geometry::MultiLineString(MultiLineString(ml)), "EMPTYMEM");
        }
        let mut one = vec![poly(&pl(&t2))];
        one.insert(0, empty_pg.clone());
        push(&mut v, AG::Polys(vec![pl(&t2)]), Geometry::MultiPolygon(MultiPolygon(one)), "EMPTYMEM");
        // ... the same as members of a collection (a Multi* with an empty part is only ever *skipped as a member* inside a collection)
        {
            let (l1, l2): (Vec<IP>, Vec<IP>) = (vec![(0, 0), (2, 1)], vec![(0, 2), (1, 2), (2, 2)]);
            for k in 0..3usize {
                let mut ml = vec![ls(&l1), ls(&l2)];
                ml.insert(k, LineString::new(vec![]));
                push(&mut v, AG::Lines(vec![l1.clone(), l2.clone()]), gcw(vec![Geometry::MultiLineString(MultiLineString(ml))]), "EMPTYMEM");
                let mut m = vec![poly(&pl(&t1)), poly(&pl(&t2))];
                m.insert(k, empty_pg.clone());
                push(&mut v, AG::Polys(vec![pl(&t1), pl(&t2)]), gcw(vec![Geometry::MultiPolygon(MultiPolygon(m))]), "EMPTYMEM");
            }
            push(&mut v, AG::Pts(vec![(1, 1), (2, 0)]), gcw(vec![Geometry::MultiPoint(MultiPoint(vec![Point(c((1, 1))), Point(c((2, 0)))])), Geometry::MultiLineString(MultiLineString(vec![LineString::new(vec![])]))]), "EMPTYMEM");
        }
        // LSdup: open line strings with a vertex written twice in a row (zero-length segment) at every position: the same point set
        for base in [vec![(0, 0), (2, 1)], vec![(0, 2), (1, 0), (2, 2)], vec![(1, 0), (1, 2), (2, 2)], vec![(0, 1), (2, 1), (2, 0), (0, 0)], vec![(2, 0), (0, 2)]] as [Vec<IP>; 5] {
            for k in 0..base.len() {
                let mut d = base.clone();
                d.insert(k, base[k]);
                push(&mut v, AG::Lines(vec![base.clone()]), Geometry::LineString(ls(&d)), "LSdup");
                if k == 0 {
                    let mut t = d.clone();
                    t.insert(0, base[0]);
                    push(&mut v, AG::Lines(vec![base.clone()]), Geometry::MultiLineString(MultiLineString(vec![ls(&t)])), "LSdup");
                }
            }
        }
        // LSrun / LNrun: a closed line string written from every start vertex in both directions whose sides are runs of three collinear segments,
        // and every segment lying on its bottom side (end points at vertices and in the middle of the run's segments)
        let r8: Vec<IP> = vec![(0, 0), (2, 0), (4, 0), (6, 0), (6, 2), (4, 2), (2, 2), (0, 2)];
        for rot in 0..8 {
            for rev in [false, true] {
                let mut r = rotate_ring(&r8, rot);
                if rev {
                    r.reverse();
                }
                let cl = close(&r);
                push(&mut v, AG::Lines(vec![cl.clone()]), Geometry::LineString(ls(&cl)), "LSrun");
            }
        }
        for x0 in 0..=6i64 {
            for x1 in 0..=6i64 {
                if x0 != x1 && (x1 - x0).abs() >= 3 {
                    push(&mut v, AG::Lines(vec![vec![(x0, 0), (x1, 0)]]), Geometry::Line(Line::new(c((x0, 0)), c((x1, 0)))), "LNrun");
                }
            }
        }
    }
    v
}

/// Abstract description of a concrete geometry with integer coordinates (None otherwise / mixed / empty)
pub fn ag_from_geom(g: &Geometry<f64>) -> Option<AG> {
    fn ip(c: Coord<f64>) -> Option<IP> {
        if c.x.fract() == 0.0 && c.y.fract() == 0.0 && c.x.abs() < 1e6 && c.y.abs() < 1e6 {
            Some((c.x as i64, c.y as i64))
        } else {
            None
        }
    }
    fn lsv(l: &LineString<f64>) -> Option<Vec<IP>> {
        l.0.iter().map(|&c| ip(c)).collect()
    }
    fn ring(l: &LineString<f64>) -> Option<Vec<IP>> {
        let mut v = lsv(l)?;
        if v.len() < 4 || v[0] != v[v.len() - 1] {
            return None;
        }
        v.pop();
        Some(v)
    }
    fn pl(p: &Polygon<f64>) -> Option<Poly> {
        Some(Poly { shell: ring(p.exterior())?, holes: p.interiors().iter().map(ring).collect::<Option<Vec<_>>>()? })
    }
    Some(match g {
        Geometry::Point(p) => AG::Pts(vec![ip(p.0)?]),
        Geometry::MultiPoint(mp) if !mp.0.is_empty() => AG::Pts(mp.0.iter().map(|p| ip(p.0)).collect::<Option<Vec<_>>>()?),
        Geometry::Line(l) => AG::Lines(vec![vec![ip(l.start)?, ip(l.end)?]]),
        Geometry::LineString(l) if l.0.len() >= 2 => AG::Lines(vec![lsv(l)?]),
        Geometry::MultiLineString(m) if !m.0.is_empty() && m.0.iter().all(|l| l.0.len() >= 2) => {
            AG::Lines(m.0.iter().map(lsv).collect::<Option<Vec<_>>>()?)
        }
        Geometry::Polygon(p) => AG::Polys(vec![pl(p)?]),
        Geometry::MultiPolygon(m) if !m.0.is_empty() => AG::Polys(m.0.iter().map(pl).collect::<Option<Vec<_>>>()?),
        _ => return None,
    })
}
/// is the abstract geometry inside the domain of C01/C02/C07 (valid, simple linework)
pub fn ag_in_domain(a: &AG) -> bool {
    match a {
        AG::Pts(p) => {
            let mut q = p.clone();
            q.sort();
            q.dedup();
            q.len() == p.len()
        }
        AG::Lines(l) => mls_simple(l),
        AG::Polys(p) => multipoly_valid(p),
    }
}

/// An integer affine map (a b / c d) + (e, f). It sends the lattice to the lattice, so the image of a shape is again described exactly by
/// integers and every exact oracle applies to the image directly: no invariance is assumed. Images lose axis alignment (no vertical or
/// horizontal edges, no axis-parallel rectangles), get steep or nearly parallel edges and larger coordinates.
#[derive(Clone, Copy, Debug)]
pub struct IMap {
    pub m: [i64; 4],
    pub t: (i64, i64),
    pub name: &'static str,
}
impl IMap {
    pub fn ap(&self, p: IP) -> IP {
        (self.m[0] * p.0 + self.m[1] * p.1 + self.t.0, self.m[2] * p.0 + self.m[3] * p.1 + self.t.1)
    }
    pub fn det(&self) -> i64 {
        self.m[0] * self.m[3] - self.m[1] * self.m[2]
    }
}
pub fn imaps() -> Vec<IMap> {
    vec![
        IMap { m: [2, 1, 1, 1], t: (0, 0), name: "shear(2 1/1 1)" },
        IMap { m: [3, -1, 5, 2], t: (100, -70), name: "(3 -1/5 2)+(100,-70)" },
        IMap { m: [-1, 4, 7, 1], t: (0, 0), name: "reflecting(-1 4/7 1)" },
        IMap { m: [1, 1000, 0, 1], t: (0, 0), name: "extreme-shear(1 1000/0 1)" },
        IMap { m: [1001, 1000, 1000, 999], t: (-500000, 123456), name: "nearly-singular(1001 1000/1000 999)+offset" },
    ]
}
pub fn map_ag(ag: &AG, f: &IMap) -> AG {
    let ring = |r: &Vec<IP>| -> Vec<IP> { r.iter().map(|&p| f.ap(p)).collect() };
    match ag {
        AG::Pts(p) => AG::Pts(p.iter().map(|&q| f.ap(q)).collect()),
        AG::Lines(l) => AG::Lines(l.iter().map(ring).collect()),
        AG::Polys(ps) => AG::Polys(ps.iter().map(|p| Poly { shell: ring(&p.shell), holes: p.holes.iter().map(ring).collect() }).collect()),
    }
}
pub fn map_geom(g: &Geometry<f64>, f: &IMap) -> Geometry<f64> {
    let cc = |c: Coord<f64>| -> Coord<f64> {
        let q = f.ap((c.x as i64, c.y as i64));
        Coord { x: q.0 as f64, y: q.1 as f64 }
    };
    let lsm = |l: &LineString<f64>| LineString::new(l.0.iter().map(|&c| cc(c)).collect());
    let pgm = |p: &Polygon<f64>| Polygon::new(lsm(p.exterior()), p.interiors().iter().map(lsm).collect());
    match g {
        Geometry::Point(p) => Geometry::Point(Point(cc(p.0))),
        Geometry::Line(l) => Geometry::Line(Line::new(cc(l.start), cc(l.end))),
        Geometry::LineString(l) => Geometry::LineString(lsm(l)),
        Geometry::Polygon(p) => Geometry::Polygon(pgm(p)),
        Geometry::MultiPoint(m) => Geometry::MultiPoint(MultiPoint(m.0.iter().map(|p| Point(cc(p.0))).collect())),
        Geometry::MultiLineString(m) => Geometry::MultiLineString(MultiLineString(m.0.iter().map(lsm).collect())),
        Geometry::MultiPolygon(m) => Geometry::MultiPolygon(MultiPolygon(m.0.iter().map(pgm).collect())),
        // the image of an axis-parallel rectangle is a parallelogram: written as the polygon of its four corners
        Geometry::Rect(r) => Geometry::Polygon(pgm(&r.to_polygon())),
        Geometry::Triangle(t) => Geometry::Triangle(Triangle(cc(t.0), cc(t.1), cc(t.2))),
        Geometry::GeometryCollection(gc) => Geometry::GeometryCollection(GeometryCollection(gc.0.iter().map(|x| map_geom(x, f)).collect())),
    }
}
/// the image of a lattice shape under an integer affine map (abstract description and concrete geometry together)
pub fn map_shape(s: &Shape, f: &IMap) -> Shape {
    Shape { ag: map_ag(&s.ag, f), g: map_geom(&s.g, f), fam: s.fam }
}

/// coordinate-wise image of a geometry, rebuilt type by type: unlike geo's `map_coords` it keeps a Triangle's corner order (geo re-normalises a
/// Triangle to counter-clockwise) - the harness must not depend on the function under test to prepare its inputs
pub fn map_geom_g<A: geo::CoordNum, B: geo::CoordNum>(g: &Geometry<A>, f: &dyn Fn(Coord<A>) -> Coord<B>) -> Geometry<B> {
    let lsm = |l: &LineString<A>| LineString::new(l.0.iter().map(|&c| f(c)).collect());
    let pgm = |p: &Polygon<A>| Polygon::new(lsm(p.exterior()), p.interiors().iter().map(lsm).collect());
    match g {
        Geometry::Point(p) => Geometry::Point(Point(f(p.0))),
        Geometry::Line(l) => Geometry::Line(Line::new(f(l.start), f(l.end))),
        Geometry::LineString(l) => Geometry::LineString(lsm(l)),
        Geometry::Polygon(p) => Geometry::Polygon(pgm(p)),
        Geometry::MultiPoint(m) => Geometry::MultiPoint(MultiPoint(m.0.iter().map(|p| Point(f(p.0))).collect())),
        Geometry::MultiLineString(m) => Geometry::MultiLineString(MultiLineString(m.0.iter().map(lsm).collect())),
        Geometry::MultiPolygon(m) => Geometry::MultiPolygon(MultiPolygon(m.0.iter().map(pgm).collect())),
        Geometry::Rect(r) => Geometry::Rect(Rect::new(f(r.min()), f(r.max()))),
        Geometry::Triangle(t) => Geometry::Triangle(Triangle(f(t.0), f(t.1), f(t.2))),
        Geometry::GeometryCollection(gc) => Geometry::GeometryCollection(GeometryCollection(gc.0.iter().map(|x| map_geom_g(x, f)).collect())),
    }
}
pub fn map_geom_f(g: &Geometry<f64>, f: &dyn Fn(Coord<f64>) -> Coord<f64>) -> Geometry<f64> {
    map_geom_g(g, f)
}

//! Exact arithmetic on the dyadic rationals that finite f64 values denote: a minimal big integer
//! and the predicates built on it (orientation, on-segment, segment intersection, ring area sign,
//! point in ring). Deliberately naive; independent of the `robust` crate geo uses.
use std::cmp::Ordering;

#[derive(Clone, Debug, PartialEq, Eq)]
pub struct Big {
    neg: bool,
    mag: Vec<u32>, // little endian, no trailing zeros
}
impl Big {
    pub fn zero() -> Big {
        Big { neg: false, mag: vec![] }
    }
    pub fn from_i128(v: i128) -> Big {
        let neg = v < 0;
        let mut u = v.unsigned_abs();
        let mut mag = vec![];
        while u > 0 {
            mag.push(u as u32);
            u >>= 32;
        }
        Big { neg, mag }
    }
    fn trim(mut self) -> Big {
        while self.mag.last() == Some(&0) {
            self.mag.pop();
        }
        if self.mag.is_empty() {
            self.neg = false;
        }
        self
    }
    pub fn sign(&self) -> i32 {
        if self.mag.is_empty() {
            0
        } else if self.neg {
            -1
        } else {
            1
        }
    }
    pub fn shl(&self, bits: u32) -> Big {
        if self.mag.is_empty() {
            return Big::zero();
        }
        let words = (bits / 32) as usize;
        let b = bits % 32;
        let mut mag = vec![0u32; words];
        let mut carry = 0u64;
        for &w in &self.mag {
            let v = ((w as u64) << b) | carry;
            mag.push(v as u32);
            carry = v >> 32;
        }
        if carry > 0 {
            mag.push(carry as u32);
        }
        Big { neg: self.neg, mag }.trim()
    }
    fn cmp_mag(a: &[u32], b: &[u32]) -> Ordering {
        if a.len() != b.len() {
            return a.len().cmp(&b.len());
        }
        for i in (0..a.len()).rev() {
            if a[i] != b[i] {
                return a[i].cmp(&b[i]);
            }
        }
        Ordering::Equal
    }
    fn add_mag(a: &[u32], b: &[u32]) -> Vec<u32> {
        let mut out = Vec::with_capacity(a.len().max(b.len()) + 1);
        let mut carry = 0u64;
        for i in 0..a.len().max(b.len()) {
            let s = *a.get(i).unwrap_or(&0) as u64 + *b.get(i).unwrap_or(&0) as u64 + carry;
            out.push(s as u32);
            carry = s >> 32;
        }
        if carry > 0 {
            out.push(carry as u32);
        }
        out
    }
    fn sub_mag(a: &[u32], b: &[u32]) -> Vec<u32> {
        // a >= b
        let mut out = Vec::with_capacity(a.len());
        let mut borrow = 0i64;
        for i in 0..a.len() {
            let mut d = a[i] as i64 - *b.get(i).unwrap_or(&0) as i64 - borrow;
            if d < 0 {
                d += 1 << 32;
                borrow = 1;
            } else {
                borrow = 0;
            }
            out.push(d as u32);
        }
        out
    }
    pub fn add(&self, o: &Big) -> Big {
        if self.neg == o.neg {
            return Big { neg: self.neg, mag: Big::add_mag(&self.mag, &o.mag) }.trim();
        }
        match Big::cmp_mag(&self.mag, &o.mag) {
            Ordering::Equal => Big::zero(),
            Ordering::Greater => Big { neg: self.neg, mag: Big::sub_mag(&self.mag, &o.mag) }.trim(),
            Ordering::Less => Big { neg: o.neg, mag: Big::sub_mag(&o.mag, &self.mag) }.trim(),
        }
    }
    pub fn neg(&self) -> Big {
        Big { neg: !self.neg && !self.mag.is_empty(), mag: self.mag.clone() }
    }
    pub fn sub(&self, o: &Big) -> Big {
        self.add(&o.neg())
    }
    pub fn mul(&self, o: &Big) -> Big {
        if self.mag.is_empty() || o.mag.is_empty() {
            return Big::zero();
        }
        let mut out = vec![0u32; self.mag.len() + o.mag.len() + 1];
        for (i, &a) in self.mag.iter().enumerate() {
            let mut carry = 0u64;
            for (j, &b) in o.mag.iter().enumerate() {
                let v = out[i + j] as u64 + a as u64 * b as u64 + carry;
                out[i + j] = v as u32;
                carry = v >> 32;
            }
            let mut k = i + o.mag.len();
            while carry > 0 {
                let v = out[k] as u64 + carry;
                out[k] = v as u32;
                carry = v >> 32;
                k += 1;
            }
        }
        Big { neg: self.neg != o.neg, mag: out }.trim()
    }
    pub fn cmp(&self, o: &Big) -> Ordering {
        self.sub(o).sign().cmp(&0)
    }
    /// approximate value (for reporting only)
    pub fn to_f64(&self) -> f64 {
        let mut v = 0.0f64;
        for &w in self.mag.iter().rev() {
            v = v * 4294967296.0 + w as f64;
        }
        if self.neg {
            -v
        } else {
            v
        }
    }
}

/// (mantissa, exponent) with value = m * 2^e exactly
pub fn decompose(x: f64) -> (i64, i32) {
    assert!(x.is_finite());
    if x == 0.0 {
        return (0, 0);
    }
    let bits = x.to_bits();
    let sign = if bits >> 63 == 1 { -1i64 } else { 1 };
    let exp = ((bits >> 52) & 0x7ff) as i32;
    let frac = (bits & 0xfffffffffffff) as i64;
    if exp == 0 {
        (sign * frac, -1074)
    } else {
        (sign * (frac | (1 << 52)), exp - 1075)
    }
}

/// a set of f64 values brought to a common binary scale as big integers
pub struct Scaled {
    pub vals: Vec<Big>,
}
pub fn scale(xs: &[f64]) -> Scaled {
    let d: Vec<(i64, i32)> = xs.iter().map(|&x| decompose(x)).collect();
    let emin = d.iter().filter(|(m, _)| *m != 0).map(|(_, e)| *e).min().unwrap_or(0);
    Scaled { vals: d.iter().map(|&(m, e)| if m == 0 { Big::zero() } else { Big::from_i128(m as i128).shl((e - emin) as u32) }).collect() }
}

pub type F2 = (f64, f64);

/// exact sign of (b-a) x (c-a)
pub fn orient(a: F2, b: F2, c: F2) -> i32 {
    let s = scale(&[a.0, a.1, b.0, b.1, c.0, c.1]);
    let v = &s.vals;
    let (abx, aby) = (v[2].sub(&v[0]), v[3].sub(&v[1]));
    let (acx, acy) = (v[4].sub(&v[0]), v[5].sub(&v[1]));
    abx.mul(&acy).sub(&aby.mul(&acx)).sign()
}
fn between(a: f64, b: f64, x: f64) -> bool {
    (a <= x && x <= b) || (b <= x && x <= a)
}
pub fn on_segment(a: F2, b: F2, p: F2) -> bool {
    orient(a, b, p) == 0 && between(a.0, b.0, p.0) && between(a.1, b.1, p.1)
}
pub fn segments_intersect(a: F2, b: F2, c: F2, d: F2) -> bool {
    let (o1, o2, o3, o4) = (orient(a, b, c), orient(a, b, d), orient(c, d, a), orient(c, d, b));
    if o1 * o2 < 0 && o3 * o4 < 0 {
        return true;
    }
    on_segment(a, b, c) || on_segment(a, b, d) || on_segment(c, d, a) || on_segment(c, d, b)
}
/// sign of the exact shoelace area of a closed ring (first == last or implicitly closed)
pub fn ring_area_sign(r: &[F2]) -> i32 {
    let flat: Vec<f64> = r.iter().flat_map(|p| [p.0, p.1]).collect();
    let s = scale(&flat);
    let n = r.len();
    let mut acc = Big::zero();
    for i in 0..n {
        let j = (i + 1) % n;
        // shift to the first vertex for smaller numbers
        let (xi, yi) = (s.vals[2 * i].sub(&s.vals[0]), s.vals[2 * i + 1].sub(&s.vals[1]));
        let (xj, yj) = (s.vals[2 * j].sub(&s.vals[0]), s.vals[2 * j + 1].sub(&s.vals[1]));
        acc = acc.add(&xi.mul(&yj).sub(&xj.mul(&yi)));
    }
    acc.sign()
}
/// 0 outside, 1 on the ring, 2 inside (ring given closed or unclosed)
pub fn point_in_ring(r: &[F2], q: F2) -> i32 {
    let n = r.len();
    let mut w = 0;
    for i in 0..n {
        let (a, b) = (r[i], r[(i + 1) % n]);
        if a == b {
            if a == q {
                return 1;
            }
            continue;
        }
        if on_segment(a, b, q) {
            return 1;
        }
        if a.1 <= q.1 {
            if b.1 > q.1 && orient(a, b, q) > 0 {
                w += 1;
            }
        } else if b.1 <= q.1 && orient(a, b, q) < 0 {
            w -= 1;
        }
    }
    if w != 0 {
        2
    } else {
        0
    }
}
pub fn next_up(x: f64, k: i64) -> f64 {
    // k ulps away from x (k may be negative); x != 0 and stays in the same sign
    let b = x.to_bits() as i64;
    let nb = if x > 0.0 { b + k } else { b - k };
    f64::from_bits(nb as u64)
}
